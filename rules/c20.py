"""C20 — integer math helpers and Aggregate: values against the documented definition for every overload, generic template and
front end; family completeness, intrinsic guards and widths, signed forwarding, bit provenance of the portable fall-backs,
overflow before narrowing, total predicates; Aggregate pre-state purity / combination / formulas / guards / add order.

Verdict policy of this file: a violation is reported only on positive evidence, i.e. a concrete counterexample produced by
an evaluation of the extracted code (a value for which the helper yields the wrong result or reaches undefined behaviour, a
result bit that comes from the wrong input bit, a sample state on which operator+= leaves a wrong field).  The structural
shapes of the first version (dominating zero test, intrinsic suffix, cast to the same-width counterpart, `param + const`)
are kept as the fast path that establishes "holds" and as the *suspicion* that triggers an evaluation; a suspicion that the
evaluation cannot confirm or refute is "cannot decide" (exit 2), never a violation.

Rules (all run under ck.guarded, each with a floor):
  FAMILY-COMPLETE   each of the nine families (clz, ctz, ffs, popcount, integer_log2_floor/ceil, is_power_of_two,
                    round_up/down_to_power_of_two) is defined for the six integer types
  FAMILY-VALUE      every one of these 54 overloads is evaluated on pow2_family of its type (0, 1, 2^k-1, 2^k, 2^k+1 for all k,
                    maximum; minimum and the negated family for signed types) against value_ref, the documented definition
                    (what is demanded for 0 and beyond the largest power of two is written down at value_ref)
  TEMPLATE-VALUE    the same for every instantiation of the generic loop templates that the witness contains (clz_template,
                    ctz_template, ffs_template, round_up_to_power_of_two_template; integer_log2_floor_template when
                    instantiated) and for popcount_generic8 (all values) / 16 / 32 / 64 (bit_family)
  ROTATE-FRONT      rol32 rol64 ror32 ror64 front ends, counts 0..2*width, negative counts, extremes of int, nine patterns; the
                    x86 inline assembly form is modelled by x86_rotate_asm (its text is read from the statement's source,
                    since the extractor does not serialise string literals of asm statements), any other form: cannot decide
  ABS-DIFF-VALUE SGN-VALUE DIV-CEIL-VALUE ROUND-UP-VALUE   per instantiation, on edge_family pairs / pow2_family / (n, k) grids
  INTRINSIC-WIDTH INTRINSIC-GUARD SIGNED-FORWARD   suspicious shapes of an overload, decided by evaluating it
  BIT-PROVENANCE    bswap16/32/64_generic, rol/ror32/64_generic: every result bit traced symbolically to its input bit
  NO-OVERFLOW-BEFORE-NARROW   div_ceil, round_up, round_down_to_power_of_two near the type's maximum
  BOOL-TOTAL        is_power_of_two_template incl. the type's minimum (no signed overflow on the way)
  PRESTATE-PURITY PLUS-COMBINES COMBINE-FORMULA DIV-GUARD ADD-ORDER   Aggregate<double>, Aggregate<int>
The evaluator (CSkel) follows tlx callees, local closures (by-reference captures, copies of const integers), the gcc/clang
bit-count intrinsics and the C++20 <bit> functions (std_bit); everything else it meets leaves the value unknown.
An evaluation that finds a loop back in a state it had before (every write modelled) is a counterexample ("never returns");
a loop that merely exceeds the round limit is "cannot decide"."""
import functools
import re
from fractions import Fraction

from engine import ir, dtable, match, skel, cfg as cfgm
from engine.ir import kids, strip_casts, const_int, ref_of

INTS = ["int", "unsigned int", "long", "unsigned long", "long long", "unsigned long long"]
WIDTH = {"int": 32, "unsigned int": 32, "long": 64, "unsigned long": 64, "long long": 64, "unsigned long long": 64}
FAMILIES = ["clz", "ctz", "ffs", "popcount", "integer_log2_floor", "integer_log2_ceil", "is_power_of_two",
            "round_up_to_power_of_two", "round_down_to_power_of_two"]
BUILTIN_W = {"": 32, "l": 64, "ll": 64}
BUILTIN_BASES = ("__builtin_clz", "__builtin_ctz", "__builtin_ffs", "__builtin_popcount")

# value ranges of the integer types as tlxir prints them (canonical spelling, LP64)
ITY = {"bool": (0, 1), "char": (-128, 127), "signed char": (-128, 127), "unsigned char": (0, 255),
       "short": (-2 ** 15, 2 ** 15 - 1), "unsigned short": (0, 2 ** 16 - 1), "int": (-2 ** 31, 2 ** 31 - 1), "unsigned int": (0, 2 ** 32 - 1),
       "long": (-2 ** 63, 2 ** 63 - 1), "unsigned long": (0, 2 ** 64 - 1), "long long": (-2 ** 63, 2 ** 63 - 1),
       "unsigned long long": (0, 2 ** 64 - 1)}
FTY = ("float", "double", "long double")
NUMCASTS = ("ImplicitCastExpr", "CStyleCastExpr", "CXXStaticCastExpr", "CXXFunctionalCastExpr")


@functools.lru_cache(maxsize=None)
def bare(ty):
    return (ty or "").replace("const ", "").replace("volatile ", "").replace("&", "").strip()


def ptype(fn, i=0):
    return bare(fn.params[i]["ty"])


def irange(ty):
    return ITY.get(bare(ty))


def iwidth(ty):
    r = irange(ty)
    return None if r is None else (r[1] - r[0]).bit_length()


def wrap(v, rng):
    return (v - rng[0]) % (rng[1] - rng[0] + 1) + rng[0]


def numeric(v):
    return isinstance(v, (int, Fraction))


def is_this_object(n):
    """the expression is `this` or `*this`"""
    n = strip_casts(n)
    if n is None:
        return False
    if n["k"] == "This":
        return True
    return n["k"] == "UnaryOperator" and n.get("op") == "*" and bool(kids(n)) and (strip_casts(kids(n)[0]) or {}).get("k") == "This"


def this_field(n):
    """field name if n is this->f, (*this).f or f (implicit this)"""
    n = strip_casts(n)
    if n is not None and n["k"] == "MemberExpr" and kids(n) and is_this_object(kids(n)[0]):
        return n["member"]
    return None


# ---------------------------------------------------------------- evaluation with C++ value semantics
class CSkel(skel.Skel):
    """the integer skeleton with the value semantics of C++ on an LP64 target: every integral conversion wraps to its target
    type, unsigned arithmetic is modular, a signed result outside its type and a shift by a negative amount / by the width
    or more are recorded as undefined behaviour in `log`, `/` is truncating for integral and exact (Fraction) for floating
    types and a division by zero is recorded.  Values that are data stay None: whoever needs them cannot decide.
    Calls of local closures are followed when their captures can be modelled exactly (call_closure); an inline assembly
    statement is executed only by a model the rule supplies (`asm`), otherwise it cannot be decided."""

    def __init__(self, *a, **kw):
        super().__init__(*a, **kw)
        self.log = []
        self.written = set()
        self.cur = None
        self.top = self.fn
        self.raw = None          # optional: sees every expression before casts / converting constructions are looked through
        self.asm = None          # optional: model of an inline assembly statement (returns True when it executed the statement)

    def conv(self, v, ty):
        t = bare(ty)
        if not numeric(v):
            return v
        if t == "bool":
            return v != 0
        if t in ITY:
            return wrap(int(v), ITY[t])          # int(Fraction) truncates towards zero like a floating -> integral conversion
        if isinstance(v, bool):
            return int(v)
        return v

    def _fit(self, r, e, op, a, b, ty=None):
        """brings the exact result r of a (op) b to the type of node e"""
        rng = irange(ty if ty is not None else e.get("ty"))
        if rng is None or not isinstance(r, int) or isinstance(r, bool):
            return r
        if not rng[0] <= r <= rng[1]:
            if rng[0] < 0 and rng[1] >= 2 ** 31 - 1 and op in ("+", "-", "*", "++", "--", "neg"):
                self.log.append(("overflow", e, op, a, b, r))
            elif rng[0] == 0 and op in ("+", "++", "*"):
                self.log.append(("wrap", e, op, a, b, r))
            r = wrap(r, rng)
        return r

    def ev(self, e):
        if e is None:
            return None
        k = e["k"]
        if self.raw is not None:
            r = self.raw(e, self)
            if r is not NotImplemented:
                return r
        if k in NUMCASTS and kids(e) and (bare(e.get("ty")) in ITY or bare(e.get("ty")) in FTY):
            return self.conv(self.ev(kids(e)[0]), e.get("ty"))
        if k == "MemberExpr" and this_field(e) and not match.this_field(e):
            if self.event is not None:
                r = self.event(e, self)
                if r is not NotImplemented:
                    return r
            return self.env.get(("field", this_field(e)))
        if k == "FloatingLiteral":
            try:
                return Fraction(e["val"]).limit_denominator(10 ** 9)
            except (TypeError, ValueError, KeyError):
                return None
        if k == "UnaryOperator" and e.get("op") in ("++", "--") and kids(e):
            if self.event is not None:
                r = self.event(e, self)
                if r is not NotImplemented:
                    return r
            key = self.lvalue(kids(e)[0])
            old = self.load(key)
            if not numeric(old) or isinstance(old, bool):
                self.store(key, None)
                return None
            new = self._fit(old + (1 if e["op"] == "++" else -1), e, e["op"], old, 1, ty=kids(e)[0].get("ty") or e.get("ty"))
            self.store(key, new)
            return old if e.get("postfix") else new
        r = super().ev(e)
        if k == "UnaryOperator" and e.get("op") in ("-", "~") and isinstance(r, int) and not isinstance(r, bool):
            r = self._fit(r, e, "neg" if e["op"] == "-" else "~", r, None)
        return r

    def arith(self, op, a, b, e):
        if a is None or b is None:
            return None
        if not numeric(a) or not numeric(b):
            return super().arith(op, a, b, e)
        # a compound assignment computes in its computation type and converts the result to the type of its left side
        cty = e.get("cty") if e["k"] == "CompoundAssignOperator" else None
        if cty:
            a = self.conv(a, cty)
        r = self._arith(op, int(a) if isinstance(a, bool) else a, int(b) if isinstance(b, bool) else b, e, bare(cty or e.get("ty")))
        if cty and numeric(r):
            r = self.conv(r, e.get("ty"))
        return r

    def _arith(self, op, a, b, e, ty):
        if op in ("<", "<=", ">", ">=", "==", "!="):
            return {"<": a < b, "<=": a <= b, ">": a > b, ">=": a >= b, "==": a == b, "!=": a != b}[op]
        if op in ("/", "%"):
            if b == 0:
                self.log.append(("div0", e, op, a, b, None))
                return None
            if ty in FTY or isinstance(a, Fraction) or isinstance(b, Fraction):
                return Fraction(a) / Fraction(b) if op == "/" else None
            q = abs(a) // abs(b) * (1 if (a >= 0) == (b >= 0) else -1)
            return self._fit(q if op == "/" else a - q * b, e, op, a, b, ty=ty)
        if op in ("<<", ">>", "&", "|", "^"):
            if not isinstance(a, int) or not isinstance(b, int):
                return None
            if op in ("<<", ">>"):
                w = iwidth(ty)
                if w is None:
                    return None
                if b < 0 or b >= max(w, 32):
                    self.log.append(("shift", e, op, a, b, None))
                    return None
                return self._fit(a << b if op == "<<" else a >> b, e, op, a, b, ty=ty)
            return self._fit({"&": a & b, "|": a | b, "^": a ^ b}[op], e, op, a, b, ty=ty)
        if op in ("+", "-", "*"):
            return self._fit({"+": a + b, "-": a - b, "*": a * b}[op], e, op, a, b, ty=ty)
        return None

    VALUE_CASTS = ("IntegralCast", "IntegralToFloating", "FloatingToIntegral", "IntegralToBoolean", "FloatingCast", "FloatingToBoolean",
                   "BooleanToSignedIntegral")

    def lvalue(self, e):
        # a value conversion yields a temporary, not the object underneath (a const reference bound to it sees the converted value)
        if e is not None and e["k"] in NUMCASTS and e.get("cast") in self.VALUE_CASTS and bare(e.get("from")) != bare(e.get("ty")):
            return None
        if this_field(e):
            return ("field", this_field(e))          # also (*this).f, which the shared matcher does not take for a field of this
        return super().lvalue(e)

    def store(self, key, v):
        if key is not None:
            self.written.add(key)
        else:
            self.log.append(("lostwrite", self.cur, None, None, None, None))      # a write to something the skeleton does not model
        super().store(key, v)

    def call_closure(self, e, args):
        """a call of a local closure object whose lambda captures nothing, captures by reference, or copies const integer
        objects: the body is evaluated on the enclosing function's own variables (a by-reference capture names the captured
        declaration itself; the copy of a const object always equals it).  Other copies, `this` and init captures are not
        modelled: NotImplemented."""
        if e["k"] != "CXXOperatorCallExpr" or e.get("op") != "()" or self.tu is None or self.depth >= 5 or not args:
            return NotImplemented
        callee = self.tu.by_did.get(e["callee"].get("did"))
        if callee is None or callee.kind != "lambda" or callee.body is None or len(args) - 1 != len(callee.params):
            return NotImplemented
        made = [x for x in self.fn.nodes() if x["k"] == "LambdaExpr" and x.get("fn") == callee.did]
        obj = strip_casts(args[0])
        if len(made) != 1 or obj is None or obj["k"] != "DeclRefExpr" or obj["ref"].get("kind") != "local":
            return NotImplemented
        decl = [x for x in self.fn.nodes() if x["k"] == "VarDecl" and x.get("did") == obj["ref"]["id"]]
        if len(decl) != 1 or not kids(decl[0]) or strip_casts(kids(decl[0])[0]) is not made[0]:
            return NotImplemented
        if "captures" not in made[0]:
            return NotImplemented
        for c in made[0]["captures"]:
            if "id" not in c:
                return NotImplemented
            if not c.get("byref"):
                # a copy of a const integer object always holds the value of the object itself
                tys = [x.get("ty") for x in self.fn.nodes() if x["k"] == "VarDecl" and x.get("did") == c["id"]] + \
                      [p.get("ty") for p in self.fn.params if p["did"] == c["id"]]
                if len(tys) != 1 or not (tys[0] or "").startswith("const ") or (tys[0] or "").replace("const ", "", 1).strip() not in ITY:
                    return NotImplemented
        saved_alias = dict(self.alias)
        for p, a in zip(callee.params, args[1:]):
            ty = (p.get("ty") or "").rstrip()
            if ty.endswith("&"):
                key = self.lvalue(a)
                if key is None or ty.endswith("&&"):
                    self.alias = saved_alias
                    return NotImplemented
                self.alias[p["did"]] = key
            else:
                self.env[p["did"]] = self.ev(a)
        self.depth += 1
        saved_fn = self.fn
        self.fn = callee
        try:
            self.run(kids(callee.body))
            ret = None
        except skel.Return as r_:
            ret = r_.v
        finally:
            self.fn = saved_fn
            self.depth -= 1
            self.alias = saved_alias
        return ret

    def inline(self, e, args):
        r = self.call_closure(e, args)
        if r is not NotImplemented:
            return r
        r = super().inline(e, args)
        if r is NotImplemented:
            # a call that is not followed may write through every non-const lvalue it receives: those objects are unknown now
            for a in args:
                if a is not None and a.get("lv") and not (a.get("ty") or "").startswith("const "):
                    key = self.lvalue(a)
                    if key is not None:
                        self.env[key] = None
        return r

    def stmt(self, s):
        if s is not None and self.depth == 0 and self.fn is self.top and s["k"] != "CompoundStmt":
            self.cur = s
        if s is not None and s["k"] in ("GCCAsmStmt", "MSAsmStmt", "AsmStmt"):
            if self.asm is not None and self.asm(s, self):
                return
            raise dtable.Undecidable("%s: inline assembly at line %s" % (self.fn.full, s.get("l")))
        super().stmt(s)


def cxx_run(tu, fn, env, event=None, raw=None, max_iter=None, asm=None, diverges=False):
    """-> (return value or None, skeleton); diverges=True hands a loop that provably never ends (skel.Diverges) to the caller"""
    sk = CSkel(fn, env, None, event, tu=tu, max_iter=max_iter)
    sk.raw = raw
    sk.asm = asm
    try:
        sk.run(kids(fn.body))
        ret = None
    except skel.Return as r_:
        ret = r_.v
    except skel.Diverges as d_:
        if diverges and not any(x[0] == "lostwrite" for x in sk.log):
            raise                # every write landed in the model and the state repeats: the loop never ends
        raise dtable.Undecidable("%s: a loop of the skeleton does not end (line %s)" % (fn.loc, (d_.loop or {}).get("l")))
    lost = [x for x in sk.log if x[0] == "lostwrite"]
    if lost:
        # closed world: every write must land in the model, otherwise later values are not the program's values
        raise dtable.Undecidable("%s: %s writes to an object the evaluation does not model" % (fn.loc, dtable.describe(lost[0][1])[:70]))
    return ret, sk


def ub_text(x):
    kind, e = x[0], x[1]
    if kind == "builtin0":
        return "%s is reached with operand 0, for which it is undefined" % x[2]
    if kind == "overflow":
        return "%s overflows its signed type (%s, %s)" % (dtable.describe(e), x[3], x[4])
    if kind == "shift":
        return "%s shifts by %s" % (dtable.describe(e), x[4])
    if kind == "div0":
        return "%s divides by zero" % dtable.describe(e)
    return "%s wraps" % dtable.describe(e)


# ---------------------------------------------------------------- bit-count families
def builtin_parts(name):
    """(base, suffix) of a bit-count intrinsic, None for any other __builtin_"""
    base = name.rstrip("l")
    suf = name[len(base):]
    if base in BUILTIN_BASES and suf in BUILTIN_W:
        return base, suf
    return None


STD_BIT = ("std::popcount", "std::countl_zero", "std::countl_one", "std::countr_zero", "std::countr_one", "std::has_single_bit",
           "std::bit_width", "std::bit_floor", "std::bit_ceil", "std::rotl", "std::rotr")


def std_bit(e, sk):
    """the functions of <bit> (C++20 [bit.pow.two], [bit.rotate], [bit.count]) on the unsigned type of their first argument;
    None where the argument is not a known unsigned integer or the standard leaves the call undefined (bit_ceil above the
    largest power of two)"""
    q = e["callee"]["qname"]
    args = [a for a in kids(e) if a is not None]
    rot = q in ("std::rotl", "std::rotr")
    if len(args) != (2 if rot else 1):
        return None
    t = bare(args[0].get("ty"))
    if t not in ITY or ITY[t][0] != 0 or t == "bool":
        return None
    w = iwidth(t)
    m = (1 << w) - 1
    v = sk.ev(args[0])
    if not isinstance(v, int) or isinstance(v, bool) or not 0 <= v <= m:
        return None
    if rot:
        c = sk.ev(args[1])
        if not isinstance(c, int) or isinstance(c, bool):
            return None
        k = c % w if q == "std::rotl" else (-c) % w
        return ((v << k) | (v >> (w - k))) & m if k else v
    r = {"std::popcount": lambda: bin(v).count("1"), "std::countl_zero": lambda: w - v.bit_length(), "std::countl_one": lambda: w - (v ^ m).bit_length(),
         "std::countr_zero": lambda: w if v == 0 else (v & -v).bit_length() - 1, "std::countr_one": lambda: ((v + 1) & ~v).bit_length() - 1,
         "std::has_single_bit": lambda: v != 0 and v & (v - 1) == 0, "std::bit_width": lambda: v.bit_length(),
         "std::bit_floor": lambda: 0 if v == 0 else 1 << (v.bit_length() - 1),
         "std::bit_ceil": lambda: 1 if v <= 1 else 1 << (v - 1).bit_length()}[q]()
    if q == "std::bit_ceil" and r > m:
        return None
    return r


def builtin_event(e, sk):
    """model of the gcc/clang bit-count intrinsics on their own operand width and of the <bit> functions"""
    if e["k"] == "CallExpr" and "callee" in e and e["callee"].get("qname") in STD_BIT:
        return std_bit(e, sk)
    if e["k"] == "CallExpr" and "callee" in e and e["callee"]["name"].startswith("__builtin_"):
        bp = builtin_parts(e["callee"]["name"])
        if bp is None or len(kids(e)) != 1:
            return None
        v = sk.ev(kids(e)[0])
        if not isinstance(v, int):
            return None
        w = BUILTIN_W[bp[1]]
        u = int(v) % (1 << w)
        if bp[0] in ("__builtin_clz", "__builtin_ctz") and u == 0:
            sk.log.append(("builtin0", e, e["callee"]["name"], v, None, None))
            return None
        if bp[0] == "__builtin_clz":
            return w - u.bit_length()
        if bp[0] == "__builtin_ctz":
            return (u & -u).bit_length() - 1
        if bp[0] == "__builtin_ffs":
            return 0 if u == 0 else (u & -u).bit_length()
        return bin(u).count("1")
    return NotImplemented


def family_samples(t):
    lo, hi = ITY[t]
    vs = {0, 1, 2, 3, 5, 6, 8, 12, 255, 256, 65535, 65536, 2 ** 31 - 1, 2 ** 31, 2 ** 31 + 1, 2 ** 32 - 1, 2 ** 32, 2 ** 32 + 2, 2 ** 40, 2 ** 40 + 8,
          3 << 45, hi, hi - 1, (hi + 1) // 2, -1, -2, -8, lo, lo + 1, -2 ** 31, -2 ** 31 - 1, -2 ** 40}
    return sorted(v for v in vs if lo <= v <= hi)


def family_ref(fam, v, t):
    """the mathematical definition on the two's complement representation; None: no reference for this point"""
    w = WIDTH[t]
    u = v % (1 << w)
    if fam == "clz":
        return w - u.bit_length()
    if fam == "ctz":
        return w if u == 0 else (u & -u).bit_length() - 1
    if fam == "ffs":
        return 0 if u == 0 else (u & -u).bit_length()
    if fam == "popcount":
        return bin(u).count("1")
    if fam == "integer_log2_floor":
        return None if v < 0 else (0 if v == 0 else v.bit_length() - 1)
    if fam == "is_power_of_two":
        return int(v > 0 and (v & (v - 1)) == 0)
    return None


def family_deviation(tu, fn, fam, t):
    """first sample value on which the overload deviates from the family's definition: (value, what it yields, reference) or
    None; Undecidable if the overload cannot be evaluated"""
    tested = 0
    for v in family_samples(t):
        want = family_ref(fam, v, t)
        if want is None:
            continue
        ret, sk = cxx_run(tu, fn, {fn.params[0]["did"]: v}, builtin_event)
        tested += 1
        ub = [x for x in sk.log if x[0] in ("builtin0", "overflow", "shift", "div0")]
        if ub:
            return v, "undefined: " + ub_text(ub[0]), want
        if not numeric(ret):
            raise dtable.Undecidable("%s: %s(%d) [%s] cannot be evaluated on the integer skeleton" % (fn.loc, fam, v, t))
        if int(ret) != want:
            return v, int(ret), want
    if not tested:
        raise dtable.Undecidable("%s: no reference semantics for %s to judge an unusual implementation" % (fn.loc, fam))
    return None


def check_family(ck, tu, fam):
    allf = tu.find(qname="tlx::" + fam)
    fns = [f for f in allf if len(f.params) == 1]
    have = sorted(set(ptype(f) for f in fns))
    miss = [t for t in INTS if t not in have]
    if miss:
        # closed world: every definition named tlx::<fam> is in the IR; a definition with another arity may still serve the type
        odd = [f for f in allf if len(f.params) != 1 and f.params and ptype(f) in miss]
        if odd:
            raise dtable.Undecidable("%s: %s for %s has %d parameters, not understood" % (odd[0].loc, fam, ptype(odd[0]), len(odd[0].params)))
        ck.violation("FAMILY-COMPLETE", "tlx::" + fam, fam, "no overload / specialisation of %s for %s" % (fam, miss), "tlx/math")
    else:
        ck.ok("FAMILY-COMPLETE", fam, "defined for all six integer types", nontrivial=False)
    for fn in fns:
        t = ptype(fn)
        if t not in WIDTH:
            continue
        ck.guarded(lambda fn=fn, t=t: check_overload(ck, tu, fam, fn, t))


def check_overload(ck, tu, fam, fn, t):
    tag = "%s(%s)" % (fam, t)
    calls = [x for x in fn.nodes() if "callee" in x and x["k"] == "CallExpr"]
    builtins = [c for c in calls if c["callee"]["name"].startswith("__builtin_")]
    fwd = [c for c in calls if c["callee"]["qname"] == "tlx::" + fam]
    memo = {}

    def deviation():
        if "d" not in memo:
            memo["d"] = family_deviation(tu, fn, fam, t)
        return memo["d"]

    def shown(d):
        return "%s(%d) yields %s, must be %s" % (fam, d[0], d[1], d[2])
    for b in builtins:
        name = b["callee"]["name"]
        bp = builtin_parts(name)
        if bp is None:
            raise dtable.Undecidable("%s: intrinsic %s is not modelled" % (fn.nloc(b), name))
        base, suf = bp
        # width: the suffix names the operand width.  Another width is only a suspicion (a wider intrinsic on a zero-extended
        # operand, two half-width calls, ... can be right): the overload is evaluated against the family's definition
        szs = [y for y in fn.nodes() if y["k"] == "UnaryExprOrTypeTraitExpr"]
        bad_sz = [y for y in szs if const_int(y) is not None and const_int(y) * 8 != WIDTH[t]]
        if BUILTIN_W[suf] != WIDTH[t]:
            d = deviation()
            if d:
                ck.violation("INTRINSIC-WIDTH", fn.qname, tag, "%s (%d-bit operand) is used for %s (%d bits): %s"
                             % (name, BUILTIN_W[suf], t, WIDTH[t], shown(d)), fn.nloc(b))
            else:
                ck.ok("INTRINSIC-WIDTH", tag, "%s on a %d-bit operand, equal to %s on every sample value" % (name, BUILTIN_W[suf], fam))
        elif bad_sz:
            d = deviation()
            if d:
                ck.violation("INTRINSIC-WIDTH", fn.qname, tag + ":sizeof", "sizeof(%s) does not name the %d-bit parameter type: %s"
                             % (bad_sz[0].get("argty"), WIDTH[t], shown(d)), fn.nloc(bad_sz[0]))
            else:
                ck.ok("INTRINSIC-WIDTH", tag, "%s on a %d-bit operand, equal to %s on every sample value" % (name, WIDTH[t], fam))
        else:
            ck.ok("INTRINSIC-WIDTH", tag, "%s on a %d-bit operand" % (name, WIDTH[t]), nontrivial=False)
        # zero guard for clz/ctz (undefined for 0)
        if base in ("__builtin_clz", "__builtin_ctz"):
            g = cfgm.CFG(fn)
            guarded = False
            for y in fn.nodes():
                if y["k"] == "IfStmt":
                    c = match.binop(kids(y)[0], ("==",))
                    if c and ref_of(c[1]) == fn.params[0]["did"] and const_int(c[2]) == 0 and \
                            any(z["k"] == "ReturnStmt" for z in ir.walk(kids(y)[1])):
                        pc, pb = g.pos_deep(kids(y)[0]), g.pos_deep(b)
                        if pc is not None and pb is not None and g.dominates(pc, pb):
                            guarded = True
            # the overload is evaluated for the argument 0 (any spelling of the guard: x != 0 ? .. : .., !x, 0 == x, x | 1, a
            # helper ...); the dominating zero test decides only where the evaluation is not possible
            try:
                ret, sk = cxx_run(tu, fn, {fn.params[0]["did"]: 0}, builtin_event)
                hit = [x for x in sk.log if x[0] == "builtin0" and x[2] == name]
                evaluated = bool(hit) or numeric(ret)
            except dtable.Undecidable:
                hit, evaluated = [], False
            if hit:
                ck.violation("INTRINSIC-GUARD", fn.qname, tag, "%s is undefined for 0 but is reached without a zero test "
                             "(evaluated for the argument 0: operand %s)" % (name, hit[0][3]), fn.nloc(b))
            elif guarded:
                ck.ok("INTRINSIC-GUARD", tag, "%s is dominated by the zero test" % name)
            elif evaluated:
                ck.ok("INTRINSIC-GUARD", tag, "%s is not reached with operand 0 when the argument is 0 (evaluated)" % name)
            else:
                raise dtable.Undecidable("%s: %s(0) cannot be evaluated: is %s guarded against 0?" % (fn.loc, fam, name))
    if fwd and not builtins and fam not in ("integer_log2_ceil",):
        # forwarding overload: argument is the parameter cast to the same-width counterpart
        a = kids(fwd[0])[0] if kids(fwd[0]) else None
        to = bare(a.get("ty")) if a is not None else ""
        inner = strip_casts(a)
        if a is not None and ref_of(inner) == fn.params[0]["did"] and WIDTH.get(to) == WIDTH[t] and to != t:
            ck.ok("SIGNED-FORWARD", tag, "forwards to the %s overload of the same width" % to, nontrivial=False)
        else:
            # a local copy, another argument expression, another width: decided by what the overload computes
            d = deviation()
            if d:
                ck.violation("SIGNED-FORWARD", fn.qname, tag, "forwards to %s(%s): not the same-width counterpart of %s: %s"
                             % (fam, to, t, shown(d)), fn.nloc(fwd[0]))
            else:
                ck.ok("SIGNED-FORWARD", tag, "forwards to %s(%s), equal to %s on every sample value" % (fam, to, fam))


def check_families(ck, tu):
    for fam in FAMILIES:
        ck.guarded(lambda fam=fam: check_family(ck, tu, fam))


# ---------------------------------------------------------------- bit provenance
class ShiftUB(Exception):
    pass


class Bits:
    """symbolic evaluation of straight-line shift/mask code on vectors of 64 bits, each 0, 1, ('x', j) = input bit j or the
    disjunction of several input bits.
    Every value is kept normalised to its C++ type (truncated, then zero- or sign-extended), shifts are checked against the
    width of their promoted left operand, arithmetic is done on constants only.  None = not understood."""
    W = 64

    def __init__(self, tu):
        self.tu = tu
        self.depth = 0

    def const(self, c):
        return [(c >> i) & 1 for i in range(self.W)]

    def fit(self, v, ty):
        r = irange(ty)
        if v is None or r is None:
            return v
        w = (r[1] - r[0]).bit_length()
        if w >= self.W:
            return list(v)
        ext = v[w - 1] if r[0] < 0 else 0
        return list(v[:w]) + [ext] * (self.W - w)

    def as_int(self, v, ty=None):
        if v is None or any(b not in (0, 1) for b in v):
            return None
        n = sum(b << i for i, b in enumerate(v))
        r = irange(ty)
        if (r is None or r[0] < 0) and n >= 1 << (self.W - 1):
            n -= 1 << self.W
        return n

    # a bit is 0, 1, ('x', j) or ('or', frozenset of input bits): the disjunction of positive literals is a canonical form,
    # it equals a single input bit only if the set is that bit; every other mixture of different input bits is None
    @staticmethod
    def _and(x, y):
        return 0 if x == 0 or y == 0 else (y if x == 1 else x if y == 1 else (x if x == y else None))

    @staticmethod
    def _or(x, y):
        if x == 1 or y == 1:
            return 1
        if x == 0:
            return y
        if y == 0 or x == y:
            return x
        sx = x[1] if x[0] == "or" else frozenset([x])
        sy = y[1] if y[0] == "or" else frozenset([y])
        return ("or", sx | sy)

    @staticmethod
    def _xor(x, y):
        if x in (0, 1) and y in (0, 1):
            return x ^ y
        return y if x == 0 else x if y == 0 else (0 if x == y else None)

    def ev(self, e, env):
        if e is None:
            return None
        k = e["k"]
        if k == "DeclRefExpr" and e["ref"]["id"] in env:
            v = env[e["ref"]["id"]]
            return None if v is None else list(v)
        if k == "IntegerLiteral" or "cval" in e or k == "CXXBoolLiteralExpr":
            c = const_int(e)
            return None if c is None else self.fit(self.const(c), e.get("ty"))
        if k in NUMCASTS or k in ("CXXReinterpretCastExpr", "CXXConstCastExpr"):
            v = self.ev(kids(e)[0], env) if kids(e) else None
            return self.fit(v, e.get("ty")) if k in NUMCASTS else v
        if k == "DeclRefExpr":
            v = env.get(e["ref"]["id"])
            return None if v is None else list(v)
        if k == "ConditionalOperator":
            c = self.as_int(self.ev(kids(e)[0], env))
            if c is None:
                return None
            return self.ev(kids(e)[1] if c else kids(e)[2], env)
        if k == "UnaryOperator" and e.get("op") in ("~", "-", "+", "!") and kids(e):
            v = self.ev(kids(e)[0], env)
            if v is None:
                return None
            if e["op"] == "+":
                return v
            n = self.as_int(v, kids(e)[0].get("ty"))
            if n is None:
                return None
            return self.fit(self.const({"~": ~n, "-": -n, "!": int(not n)}[e["op"]]), e.get("ty"))
        if k == "BinaryOperator":
            op, l, r = e["op"], kids(e)[0], kids(e)[1]
            lv, rv = self.ev(l, env), self.ev(r, env)
            if lv is None or rv is None:
                return None
            if op in ("<<", ">>"):
                n = self.as_int(rv, r.get("ty"))
                w = iwidth(e.get("ty"))
                if n is None or w is None:
                    return None
                if n < 0 or n >= max(w, 32):
                    raise ShiftUB(n)
                sign = lv[self.W - 1] if irange(e.get("ty"))[0] < 0 else 0
                out = [0] * n + lv[: self.W - n] if op == "<<" else lv[n:] + [sign] * n
                return self.fit(out, e.get("ty"))
            if op in ("&", "|", "^"):
                f = {"&": self._and, "|": self._or, "^": self._xor}[op]
                out = [f(x, y) for x, y in zip(lv, rv)]
                return None if None in out else self.fit(out, e.get("ty"))
            a, b = self.as_int(lv, l.get("ty")), self.as_int(rv, r.get("ty"))
            if a is None or b is None:
                return None
            if op in ("+", "-", "*"):
                return self.fit(self.const({"+": a + b, "-": a - b, "*": a * b}[op]), e.get("ty"))
            if op in ("/", "%") and b != 0:
                q = abs(a) // abs(b) * (1 if (a >= 0) == (b >= 0) else -1)
                return self.fit(self.const(q if op == "/" else a - q * b), e.get("ty"))
            if op in ("<", "<=", ">", ">=", "==", "!="):
                return self.const(int({"<": a < b, "<=": a <= b, ">": a > b, ">=": a >= b, "==": a == b, "!=": a != b}[op]))
            return None
        if k == "CallExpr" and "callee" in e:
            name = e["callee"]["name"]
            args = [a for a in kids(e) if a is not None]
            if name in ("__builtin_bswap16", "__builtin_bswap32", "__builtin_bswap64") and len(args) == 1:
                n = int(name[len("__builtin_bswap"):])
                v = self.ev(args[0], env)
                if v is None:
                    return None
                out = [v[(n // 8 - 1 - i // 8) * 8 + i % 8] for i in range(n)] + [0] * (self.W - n)
                return self.fit(out, e.get("ty"))
            callee = self.tu.by_did.get(e["callee"].get("did"))
            if callee is None or callee.body is None or e.get("member_call") or len(args) != len(callee.params) or self.depth >= 4:
                return None
            env2 = {}
            for p, a in zip(callee.params, args):
                v = self.ev(a, env)
                if v is None:
                    return None
                env2[p["did"]] = self.fit(v, p.get("ty"))
            self.depth += 1
            try:
                return self.body(callee, env2)
            finally:
                self.depth -= 1
        return None

    def body(self, fn, env):
        """value returned by a function whose body is declarations, assignments to locals, concretely decided ifs and returns"""
        env = dict(env)
        r = self._run(kids(fn.body), env)
        return r[1] if r else None

    def _run(self, stmts, env):
        """('ret', v) on return; () when the statements fell through; ('bad', None) when not understood"""
        for s in stmts:
            if s is None or s["k"] == "NullStmt":
                continue
            k = s["k"]
            if k == "CompoundStmt":
                r = self._run(kids(s), env)
                if r:
                    return r
            elif k == "DeclStmt":
                for v in kids(s):
                    if v["k"] != "VarDecl":
                        continue
                    env[v["did"]] = self.fit(self.ev(kids(v)[0], env), v.get("ty")) if kids(v) else None
            elif k == "ReturnStmt":
                return ("ret", self.ev(kids(s)[0], env) if kids(s) else None)
            elif k == "IfStmt":
                c = self.as_int(self.ev(kids(s)[0], env))
                if c is None:
                    return ("bad", None)
                br = kids(s)[1] if c else (kids(s)[2] if len(kids(s)) > 2 else None)
                r = self._run([br], env)
                if r:
                    return r
            elif k in ("BinaryOperator", "CompoundAssignOperator") and s["op"].endswith("=") and s["op"] not in ("==", "!=", "<=", ">=") \
                    and strip_casts(kids(s)[0])["k"] == "DeclRefExpr":
                d = ref_of(kids(s)[0])
                if s["op"] == "=":
                    env[d] = self.fit(self.ev(kids(s)[1], env), kids(s)[0].get("ty"))
                else:
                    fake = dict(s)
                    fake["k"], fake["op"], fake["ty"] = "BinaryOperator", s["op"][:-1], s.get("cty") or s.get("ty")
                    env[d] = self.fit(self.ev(fake, env), kids(s)[0].get("ty"))
            else:
                return ("bad", None)
        return ()


def check_bits(ck, tu):
    def bswap(qn, w, label):
        fn = tu.one(qname=qn)
        bv = Bits(tu)
        x = bv.fit([("x", j) for j in range(bv.W)], "unsigned long" if w == 64 else "unsigned int" if w == 32 else "unsigned short")
        try:
            r = bv.body(fn, {fn.params[0]["did"]: x})
        except ShiftUB as su:
            return fn, ("ub", su.args[0])
        want = [("x", (w // 8 - 1 - i // 8) * 8 + i % 8) for i in range(w)]
        if r is None:
            raise dtable.Undecidable("%s: not a pure shift/mask expression" % fn.loc)
        if r[:w] != want:
            badbit = [i for i in range(w) if r[i] != want[i]][0]
            got = r[badbit]
            if isinstance(got, tuple) and got[0] == "or":
                got = "the disjunction of input bits %s" % sorted(j for _, j in got[1])
            return fn, ("bit", badbit, got, want[badbit][1])
        return fn, None

    def generic(w):
        fn, bad = bswap("tlx::bswap%d_generic" % w, w, "bswap%d" % w)
        if bad and bad[0] == "ub":
            ck.violation("BIT-PROVENANCE", fn.qname, "bswap%d:shift" % w, "shifts by %s, undefined for its operand" % bad[1], fn.loc)
        elif bad:
            ck.violation("BIT-PROVENANCE", fn.qname, "bswap%d" % w, "result bit %d comes from %s, a byte swap needs input bit %d" % bad[1:], fn.loc)
        else:
            ck.ok("BIT-PROVENANCE", fn.qname, "all %d result bits come from the byte-mirrored input bit" % w)
    for w in (16, 32, 64):
        ck.guarded(lambda w=w: generic(w))

    def rotate(name, left, w):
        fn = tu.one(qname="tlx::%s%d_generic" % (name, w))
        bad = None
        for i in list(range(0, w)) + [w, w + 3, -1, -5]:
            bv = Bits(tu)
            x = bv.fit([("x", j) for j in range(bv.W)], "unsigned long" if w == 64 else "unsigned int")
            try:
                r = bv.body(fn, {fn.params[0]["did"]: x, fn.params[1]["did"]: bv.fit(bv.const(i), "int")})
            except ShiftUB as su:
                ck.violation("BIT-PROVENANCE", fn.qname, "%s%d:shift" % (name, w), "rotation by %d shifts by %s, undefined for a %d-bit operand" % (i, su.args[0], w), fn.loc)
                return
            if r is None:
                raise dtable.Undecidable("%s: not a pure shift/mask expression (i=%d)" % (fn.loc, i))
            k = i % w
            want = [("x", (j - k) % w) for j in range(w)] if left else [("x", (j + k) % w) for j in range(w)]
            if r[:w] != want:
                bad = i
                break
        if bad is not None:
            ck.violation("BIT-PROVENANCE", fn.qname, "%s%d" % (name, w), "rotation by %d is wrong (bit provenance differs from a %d-bit rotate)" % (bad, w), fn.loc)
        else:
            ck.ok("BIT-PROVENANCE", fn.qname, "rotate %s correct for every amount 0..%d (and wrap-around amounts), all bits" % ("left" if left else "right", w - 1))
    for name, left in (("rol", True), ("ror", False)):
        for w in (32, 64):
            ck.guarded(lambda name=name, left=left, w=w: rotate(name, left, w))

    # intrinsic front ends use the intrinsic of their own width: decided by the provenance of the result bits, the intrinsic
    # __builtin_bswapN mirroring the low N bits of its operand
    def front(w):
        fn = tu.one(qname="tlx::bswap%d" % w)
        b = [x for x in fn.nodes() if "callee" in x and x["callee"]["name"].startswith("__builtin_bswap")]
        if len(b) == 1 and b[0]["callee"]["name"] == "__builtin_bswap%d" % w and ref_of(kids(b[0])[0]) == fn.params[0]["did"]:
            ck.ok("INTRINSIC-WIDTH", "bswap%d" % w, b[0]["callee"]["name"], nontrivial=False)
            return
        fn, bad = bswap("tlx::bswap%d" % w, w, "bswap%d" % w)
        if bad and bad[0] == "ub":
            ck.violation("INTRINSIC-WIDTH", fn.qname, "bswap%d" % w, "bswap%d shifts by %s, undefined for its operand" % (w, bad[1]), fn.loc)
        elif bad:
            ck.violation("INTRINSIC-WIDTH", fn.qname, "bswap%d" % w, "bswap%d does not use __builtin_bswap%d: result bit %d comes from %s, a byte swap needs input bit %d"
                         % ((w, w) + bad[1:]), fn.loc)
        else:
            ck.ok("INTRINSIC-WIDTH", "bswap%d" % w, "all %d result bits come from the byte-mirrored input bit" % w)
    for w in (16, 32, 64):
        ck.guarded(lambda w=w: front(w))


# ---------------------------------------------------------------- overflow before narrowing
def overflow_ref(q, vals, hi):
    """mathematical result on the natural domain (non-negative arguments, positive divisor); None outside / not representable"""
    if q == "tlx::round_down_to_power_of_two":
        i = vals[0]
        r = None if i < 0 else (0 if i == 0 else 1 << (i.bit_length() - 1))
    else:
        n, k = vals
        if n < 0 or k <= 0:
            return None
        r = -(-n // k)
        if q == "tlx::round_up":
            r *= k
    return r if r is not None and r <= hi else None


def overflow_grid(q, fn, hi):
    consts = set(c for c in (const_int(y) for y in fn.nodes() if y["k"] == "IntegerLiteral") if c is not None and 0 < c < 1024) | {1, 2}
    near = set()
    for c in consts:
        near |= {hi - c, hi - c + 1}
    big = sorted(v for v in near | {hi, hi - 1, (hi + 1) // 2, (hi + 1) // 2 + 1, (hi + 1) // 2 - 1} if 0 <= v <= hi)
    small = [0, 1, 2, 3, 4, 5, 7, 8, 9, 12, 16, 17, 1000]
    if q == "tlx::round_down_to_power_of_two":
        return [(v,) for v in small + big]
    ks = [1, 2, 3, 7, 8, hi - 1, hi]
    return [(n, k) for n in small + big for k in ks]


def check_overflow(ck, tu):
    """a total helper must not add to a full-range parameter before dividing / shifting / rounding down:
    n + k - 1 or i + 1 wraps for the upper part of the domain although the result is representable.
    Decided by evaluating the helper (callees included) with C++ integer semantics at the extremes of its type and on small
    values: a violation is an addition that wrapped / overflowed on a point whose mathematical result is representable, and
    a result that differs from it.  The syntactic form `param + positive` is only the suspicion."""
    def one(q, fn):
        pids = [p["did"] for p in fn.params]
        types = [ptype(fn, i) for i in range(len(fn.params))]
        tag = "%s(%s)" % (q.split("::")[-1], ",".join(types))
        suspects = []
        for x in fn.nodes():
            b = match.binop(x, ("+",))
            if not b or strip_casts(x)["k"] != "BinaryOperator":
                continue
            ops = [b[1], b[2]]
            raw = [o for o in ops if ref_of(o) in pids and strip_casts(o)["k"] == "DeclRefExpr"]
            if not raw:
                continue
            other = [o for o in ops if o is not raw[0]][0]
            if (const_int(other) or 0) > 0 or ref_of(other) in pids:
                suspects.append(x)
        evidence = None
        cannot = None
        points = 0
        if all(t in ITY for t in types) and len(set(types)) == 1:
            lo, hi = ITY[types[0]]
            try:
                for vals in overflow_grid(q, fn, hi):
                    want = overflow_ref(q, vals, hi)
                    if want is None:
                        continue
                    ret, sk = cxx_run(tu, fn, dict(zip(pids, vals)), builtin_event)
                    points += 1
                    adds = [x for x in sk.log if x[0] in ("overflow", "wrap") and x[2] in ("+", "++")]
                    ub = [x for x in sk.log if x[0] in ("overflow", "shift", "div0", "builtin0")]
                    if not numeric(ret) and not ub:
                        raise dtable.Undecidable("%s: %s%s cannot be evaluated on the integer skeleton" % (fn.loc, q.split("::")[-1], vals))
                    if adds and (ub or int(ret) != want):
                        got = ("undefined: " + ub_text(ub[0])) if ub else int(ret)
                        evidence = (adds[0][1], vals, got, want)
                        break
            except dtable.Undecidable as u:
                cannot = u
        else:
            cannot = dtable.Undecidable("%s: parameter types %s not modelled" % (fn.loc, types))
        if evidence is not None:
            wrapped, vals, got, want = evidence
            own = set(y["id"] for y in fn.nodes())
            bad = wrapped if wrapped["id"] in own or not suspects else suspects[0]
            ck.violation("NO-OVERFLOW-BEFORE-NARROW", fn.qname, tag.replace(" ", "_"),
                         "%s is computed on the raw argument before the result is narrowed: it wraps for arguments near the type's maximum although the "
                         "mathematical result is representable (for %s %s wraps and the helper yields %s, must be %s)"
                         % (dtable.describe(bad), ", ".join(str(v) for v in vals), dtable.describe(wrapped), got, want), fn.nloc(bad))
        elif cannot is not None and suspects:
            raise dtable.Undecidable("%s: %s adds to the raw argument and the helper cannot be evaluated to see whether it wraps (%s)"
                                     % (fn.nloc(suspects[0]), dtable.describe(suspects[0]), cannot))
        elif cannot is not None:
            ck.ok("NO-OVERFLOW-BEFORE-NARROW", tag, "no widening addition on the raw argument")
        else:
            ck.ok("NO-OVERFLOW-BEFORE-NARROW", tag, "no addition wraps or overflows on %d points incl. the type's maximum" % points)
    for q in ("tlx::div_ceil", "tlx::round_up", "tlx::round_down_to_power_of_two"):
        for fn in tu.some(qname=q):
            ck.guarded(lambda q=q, fn=fn: one(q, fn))


def check_bool_total(ck, tu):
    """BOOL-TOTAL: is_power_of_two_template is evaluated on its integer skeleton for the extreme and the small values of
    each instantiated type: the result is (i > 0 and i has one bit set) and no signed subtraction / addition leaves the
    type's range on the way (i - 1 for the minimum)"""
    def one(fn):
        t = ptype(fn)
        if t not in ITY:
            raise dtable.Undecidable("%s: integer type %s not modelled" % (fn.loc, t))
        lo, hi = ITY[t]
        bad = None
        vals = sorted(set([lo, lo + 1, -8, -2, -1, 0, 1, 2, 3, 4, 5, 6, 7, 8, 12, 16, 2 ** 30, hi - 1, hi, (hi + 1) // 2]))
        vals = [v for v in vals if lo <= v <= hi]
        for v in vals:
            ret, sk = cxx_run(tu, fn, {fn.params[0]["did"]: v}, builtin_event)
            over = [x for x in sk.log if x[0] == "overflow"]
            other_ub = [x for x in sk.log if x[0] in ("shift", "div0", "builtin0")]
            want = v > 0 and (v & (v - 1)) == 0
            if over:
                e = over[0][1]
                bad = ("overflow", "%s is evaluated for i = %d (%s): signed overflow for the minimum, for which the predicate must simply be false"
                       % (dtable.describe(e), v, t), e)
                break
            if other_ub:
                bad = ("form", "is_power_of_two(%d) [%s] is undefined: %s" % (v, t, ub_text(other_ub[0])), other_ub[0][1])
                break
            if not isinstance(ret, (int, bool)):
                raise dtable.Undecidable("%s: is_power_of_two(%d) [%s] cannot be evaluated on the integer skeleton" % (fn.loc, v, t))
            if bool(ret) != want:
                bad = ("form", "is_power_of_two(%d) [%s] yields %s, must be %s" % (v, t, bool(ret), want), fn.body)
                break
        if bad:
            ck.violation("BOOL-TOTAL", fn.qname, t.replace(" ", "_") + (":form" if bad[0] == "form" else ""), bad[1], fn.nloc(bad[2]))
        else:
            ck.ok("BOOL-TOTAL", "is_power_of_two_template<%s>" % t, "%d values incl. the type's minimum and maximum: result == (i > 0 and one bit set), no signed overflow on the way" % len(vals))
    for fn in tu.some(qname="tlx::is_power_of_two_template"):
        ck.guarded(lambda fn=fn: one(fn))


# ---------------------------------------------------------------- values against the documented definition
UB_KINDS = ("builtin0", "overflow", "shift", "div0")
VALUE_ROUNDS = 300          # loop rounds of one evaluation (the bit loops of the templates need at most the width of the type)


def pow2_family(t):
    """0, 1, 2^k - 1, 2^k, 2^k + 1 for every k of the type, the type's maximum and its neighbour; for a signed type also the
    minimum, its neighbour and -(2^k) - 1, -(2^k), -(2^k) + 1 for every k"""
    lo, hi = ITY[t]
    vs = {0, 1, hi - 1, hi}
    for k in range(iwidth(t) + 1):
        vs |= {2 ** k - 1, 2 ** k, 2 ** k + 1}
        if lo < 0:
            vs |= {-2 ** k - 1, -2 ** k, -2 ** k + 1}
    if lo < 0:
        vs |= {lo, lo + 1}
    return sorted(v for v in vs if lo <= v <= hi)


def bit_family(w):
    """bit patterns of a w-bit word: every value for 8 bits; otherwise 0, all ones, every one-bit pattern with its two
    neighbours and the complements of the three, every two-bit pattern, the SWAR masks and other repeated bytes (with a NUL
    byte shifted in at either end; bytes >= 0x80 among them) and 64 values of a fixed linear congruential sequence"""
    m = (1 << w) - 1
    if w <= 8:
        return list(range(m + 1))
    vs = {0, m}
    for k in range(w):
        for v in ((1 << k) - 1, 1 << k, (1 << k) + 1):
            vs |= {v & m, ~v & m}
        for j in range(k):
            vs.add((1 << k) | (1 << j))
    for byte in (0x55, 0xAA, 0x33, 0xCC, 0x0F, 0xF0, 0x01, 0x80, 0xFF, 0x7F, 0x81):
        rep = int.from_bytes(bytes([byte]) * (w // 8), "big")
        vs |= {rep, rep >> 8, (rep << 8) & m}
    x = 0x9E3779B97F4A7C15
    for _ in range(64):
        x = (x * 6364136223846793005 + 1442695040888963407) % (1 << 64)
        vs.add(x >> (64 - w))
    return sorted(vs)


def value_ref(fam, v, t):
    """the value the documented definition demands for fam(v) with v of type t; None: nothing is demanded at this point.
    Read from the header comments and the explicit guards of the code:
      clz / ctz       count leading / trailing zeros of the two's complement representation; the explicit zero guard returns
                      the width of the type (8 * sizeof) for 0
      ffs             'find first set bit in integer, or zero if none are set': 1-based
      popcount        'count one bits'
      integer_log2_floor  floor(log2 i) for i >= 1; the explicit guard returns 0 for 0; nothing is said about negative values
      integer_log2_ceil   ceil(log2 i) for i >= 1 (the comment says 'log2 floor', a copy of the line above); the code returns 0
                      for every i <= 1; 0 and negative values are left open by the header: not demanded
      is_power_of_two 'true if i is a power of two': total, false for 0 and for negative values
      round_up_to_power_of_two   'round up to next power of two': the smallest power of two >= i for i >= 1 when it is
                      representable; 0, negative values and values above the largest power of two of the type are left open
                      (the code yields 0 for 0 and wraps / overflows above the largest power): not demanded
      round_down_to_power_of_two 'round down to next power of two': the largest power of two <= i for i >= 1 (always
                      representable); the explicit guard returns 0 for 0; negative values are left open"""
    lo, hi = ITY[t]
    w = iwidth(t)
    u = v % (1 << w)
    if fam == "clz":
        return w - u.bit_length()
    if fam == "ctz":
        return w if u == 0 else (u & -u).bit_length() - 1
    if fam == "ffs":
        return 0 if u == 0 else (u & -u).bit_length()
    if fam == "popcount":
        return bin(u).count("1")
    if fam == "integer_log2_floor":
        return None if v < 0 else (0 if v == 0 else v.bit_length() - 1)
    if fam == "integer_log2_ceil":
        return None if v < 1 else (v - 1).bit_length()
    if fam == "is_power_of_two":
        return int(v > 0 and (v & (v - 1)) == 0)
    if fam == "round_up_to_power_of_two":
        r = None if v < 1 else 1 << (v - 1).bit_length()
        return r if r is not None and r <= hi else None
    if fam == "round_down_to_power_of_two":
        return None if v < 0 else (0 if v == 0 else 1 << (v.bit_length() - 1))
    return None


def value_at(tu, fn, args, asm=None):
    """evaluates fn on concrete arguments with C++ value semantics -> ('val', integer, None) | ('ub', text, node);
    Undecidable when the evaluation does not produce an integer"""
    env = {p["did"]: a for p, a in zip(fn.params, args)}
    try:
        ret, sk = cxx_run(tu, fn, env, builtin_event, max_iter=VALUE_ROUNDS, asm=asm, diverges=True)
    except skel.Diverges as d_:
        return ("ub", "never returns: the loop at line %s comes back to the state it had there before" % (d_.loop or {}).get("l"), d_.loop)
    ub = [x for x in sk.log if x[0] in UB_KINDS]
    if ub:
        return ("ub", "is undefined: " + ub_text(ub[0]), ub[0][1])
    if isinstance(ret, bool):
        ret = int(ret)
    if not isinstance(ret, int):
        raise dtable.Undecidable("%s: %s(%s) cannot be evaluated on the integer skeleton" % (fn.loc, fn.full, ", ".join(str(a) for a in args)))
    return ("val", ret, None)


def decide_values(ck, tu, rule, fn, tag, points, ref, what, asm=None, fmt=str):
    """fn is evaluated on every argument tuple of `points` for which ref(*args) demands a value: ok when all agree, a violation
    with the first argument tuple on which fn yields another value or reaches undefined behaviour"""
    short = fn.full.split("::")[-1]
    n = 0
    for args in points:
        want = ref(*args)
        if want is None:
            continue
        got = value_at(tu, fn, args, asm)
        n += 1
        if got[0] == "ub" or got[1] != want:
            call = "%s(%s)" % (short, ", ".join(fmt(a) for a in args))
            if "<" not in short:
                call += " [%s]" % ", ".join(ptype(fn, i) for i in range(len(fn.params)))
            ck.violation(rule, fn.qname, tag, "%s %s, the documented definition (%s) gives %s"
                         % (call, got[1] if got[0] == "ub" else "yields %s" % fmt(got[1]), what, fmt(want)),
                         fn.nloc(got[2]) if got[2] is not None else fn.loc)
            return
    if not n:
        raise dtable.Undecidable("%s: no argument of the family has a documented value for %s" % (fn.loc, short))
    ck.ok(rule, tag, "%d arguments: equal to %s, no undefined behaviour on the way" % (n, what))


FAMILY_WHAT = {"clz": "leading zero bits, the width for 0", "ctz": "trailing zero bits, the width for 0", "ffs": "1-based index of the lowest set bit, 0 for 0",
               "popcount": "number of one bits", "integer_log2_floor": "floor(log2 i) for i >= 1, 0 for 0", "integer_log2_ceil": "ceil(log2 i) for i >= 1",
               "is_power_of_two": "i > 0 with one bit set", "round_up_to_power_of_two": "smallest power of two >= i for i >= 1 when representable",
               "round_down_to_power_of_two": "largest power of two <= i for i >= 1, 0 for 0"}


def check_family_values(ck, tu):
    """FAMILY-VALUE: every overload / specialisation of the nine families for the six integer types is evaluated (callees and
    intrinsics included) on pow2_family of its parameter type against value_ref"""
    for fam in FAMILIES:
        fns = [f for f in tu.find(qname="tlx::" + fam) if len(f.params) == 1 and ptype(f) in WIDTH]
        if not fns:
            ck.guarded(lambda fam=fam: ck.require(False, "no single-argument integer overload of tlx::%s in the witness IR" % fam))
        for fn in fns:
            t = ptype(fn)
            ck.guarded(lambda fn=fn, t=t, fam=fam: decide_values(
                ck, tu, "FAMILY-VALUE", fn, "%s(%s)" % (fam, t), [(v,) for v in pow2_family(t)],
                lambda v: value_ref(fam, v, t), FAMILY_WHAT[fam]))


# the portable implementations behind the intrinsics: template name -> family whose definition it implements
TEMPLATES = {"clz_template": "clz", "ctz_template": "ctz", "ffs_template": "ffs", "integer_log2_floor_template": "integer_log2_floor",
             "integer_log2_ceil_template": "integer_log2_ceil", "round_up_to_power_of_two_template": "round_up_to_power_of_two"}
TEMPLATES_WITNESSED = ("clz_template", "ctz_template", "ffs_template", "round_up_to_power_of_two_template")
POPCOUNT_GENERIC = {"popcount_generic8": 8, "popcount_generic16": 16, "popcount_generic32": 32, "popcount_generic64": 64}


def check_template_values(ck, tu):
    """TEMPLATE-VALUE: every instantiation of the generic loop templates that the witness contains is evaluated on pow2_family
    of its parameter type against value_ref of the family it stands in for; popcount_generic8/16/32/64 (SWAR arithmetic) on
    bit_family of their width (8 bits: every value)"""
    for name, fam in TEMPLATES.items():
        fns = [f for f in tu.find(qname="tlx::" + name) if len(f.params) == 1]
        if not fns and name in TEMPLATES_WITNESSED:
            ck.guarded(lambda name=name: ck.require(False, "no instantiation of tlx::%s in the witness IR" % name))
        for fn in fns:
            t = ptype(fn)

            def one(fn=fn, t=t, fam=fam):
                if t not in ITY or t == "bool":
                    raise dtable.Undecidable("%s: parameter type %s of %s not modelled" % (fn.loc, t, fn.full))
                decide_values(ck, tu, "TEMPLATE-VALUE", fn, fn.full.split("::")[-1], [(v,) for v in pow2_family(t)],
                              lambda v: value_ref(fam, v, t), FAMILY_WHAT[fam])
            ck.guarded(one)
    for name, w in POPCOUNT_GENERIC.items():
        def swar(name=name, w=w):
            fn = tu.one(qname="tlx::" + name)
            t = ptype(fn) if len(fn.params) == 1 else None
            if t not in ITY or ITY[t] != (0, 2 ** w - 1):
                raise dtable.Undecidable("%s: %s does not take one unsigned %d-bit argument" % (fn.loc, name, w))
            decide_values(ck, tu, "TEMPLATE-VALUE", fn, name, [(v,) for v in bit_family(w)], lambda v: bin(v).count("1"),
                          "number of one bits", fmt=hex)
        ck.guarded(swar)


# ---- rotate front ends
_SRC = {}


def asm_parts(fn, s):
    """(template, output constraints, input constraints, clobbers) of a GCC-style asm statement.  The extractor serialises the
    operand expressions of an asm statement but not its string literals; they are read from the statement's own source text
    at the location the AST gives.  Anything but `asm [volatile] ( "..." : operands : operands [: clobbers] ) ;` with plain
    string literals is not understood (None)."""
    path = s.get("f") or fn.file
    if path not in _SRC:
        try:
            with open(path, errors="replace") as fh:
                _SRC[path] = fh.read().split("\n")
        except OSError:
            _SRC[path] = None
    lines = _SRC[path]
    if lines is None or not s.get("l") or not s.get("c") or s["l"] > len(lines):
        return None
    text = "\n".join(lines[s["l"] - 1:])[s["c"] - 1:]
    toks = []
    pos = 0
    tok = re.compile(r'\s*(?:"((?:[^"\\\n])*)"|([A-Za-z_]\w*)|(//|/\*)|(\S))')
    depth = 0
    while True:
        m = tok.match(text, pos)
        if not m or m.group(3):
            return None                      # end of text / a comment inside the statement / an escape in a literal
        pos = m.end()
        if m.group(1) is not None:
            toks.append(("str", m.group(1)))
        elif m.group(2):
            toks.append(("id", m.group(2)))
        else:
            c = m.group(4)
            if c == '"':
                return None
            if c == ";" and depth == 0:
                break
            depth += c == "("
            depth -= c == ")"
            toks.append((c, c))
        if len(toks) > 200:
            return None
    if not toks or toks[0] not in (("id", "asm"), ("id", "__asm__"), ("id", "__asm")):
        return None
    i = 1
    while i < len(toks) and toks[i] in (("id", "volatile"), ("id", "__volatile__")):
        i += 1
    if i >= len(toks) or toks[i][0] != "(" or toks[-1][0] != ")":
        return None
    body = toks[i + 1:-1]
    sections = [[]]
    depth = 0
    for t in body:
        if t[0] == ":" and depth == 0:
            sections.append([])
            continue
        depth += t[0] == "("
        depth -= t[0] == ")"
        sections[-1].append(t)
    if not 1 <= len(sections) <= 4 or not sections[0] or any(t[0] != "str" for t in sections[0]):
        return None
    template = "".join(t[1] for t in sections[0])

    def operands(sec):
        out = []
        j = 0
        while j < len(sec):
            if sec[j][0] != "str" or j + 1 >= len(sec) or sec[j + 1][0] != "(":
                return None
            out.append(sec[j][1])
            j += 1
            d = 0
            while j < len(sec):
                d += sec[j][0] == "("
                d -= sec[j][0] == ")"
                j += 1
                if d == 0:
                    break
            if d != 0:
                return None
            if j < len(sec):
                if sec[j][0] != ",":
                    return None
                j += 1
                if j >= len(sec):
                    return None
        return out
    outs = operands(sections[1]) if len(sections) > 1 else []
    ins = operands(sections[2]) if len(sections) > 2 else []
    clob = sections[3] if len(sections) > 3 else []
    if outs is None or ins is None or any(t[0] not in ("str", ",") for t in clob):
        return None
    return template, outs, ins, [t[1] for t in clob if t[0] == "str"]


def x86_rotate_asm(s, sk):
    """model of the one inline assembly form of rol.hpp / ror.hpp: `rol|ror l|q %cl, %0` (AT&T syntax) on a register operand
    that is read and written, the count in the c register.  x86 semantics (Intel SDM, ROL/ROR): the count is the low byte of
    the count register masked to 5 bits for a 32-bit and to 6 bits for a 64-bit operand; the operand is rotated by that many
    bits.  Every other template / constraint list / operand type is not modelled (the caller cannot decide)."""
    if s["k"] != "GCCAsmStmt":
        return False
    parts = asm_parts(sk.fn, s)
    if parts is None:
        return False
    template, outs, ins, clob = parts
    m = re.fullmatch(r"\s*(rol|ror)([lq])\s+%%cl\s*,\s*%0\s*", template)
    ops = [x for x in kids(s) if x is not None]
    if not m or any(c not in ("cc", "memory") for c in clob) or len(ops) != len(outs) + len(ins):
        return False
    if (outs, ins) == (["=r"], ["0", "c"]):
        dst, src, cnt = ops
    elif (outs, ins) == (["+r"], ["c"]):
        dst, cnt = ops
        src = dst
    else:
        return False
    w = 32 if m.group(2) == "l" else 64
    ty = bare(dst.get("ty"))
    if ty not in ITY or iwidth(ty) != w or bare(src.get("ty")) != ty or bare(cnt.get("ty")) not in ITY or not dst.get("lv"):
        return False
    key = sk.lvalue(dst)
    if key is None:
        return False
    v, c = sk.ev(src), sk.ev(cnt)
    if not isinstance(v, int) or not isinstance(c, int) or isinstance(v, bool) or isinstance(c, bool):
        sk.store(key, None)
        return True
    u = v % (1 << w)
    n = (c & 0xFF) & (w - 1)
    if m.group(1) == "ror":
        n = (w - n) % w
    r = ((u << n) | (u >> (w - n))) & ((1 << w) - 1) if n else u
    sk.store(key, sk.conv(r, ty))
    return True


def check_rotate_front(ck, tu):
    """ROTATE-FRONT: rol32 / rol64 / ror32 / ror64 as the callers get them (inline assembly on x86, otherwise the generic
    fall-back) are evaluated for every count 0..2*width, some negative counts and the extremes of int on a few bit patterns:
    the result is the rotation by (count mod width)"""
    def one(name, left, w):
        fn = tu.one(qname="tlx::%s%d" % (name, w))
        if len(fn.params) != 2 or ptype(fn, 0) not in ITY or ITY[ptype(fn, 0)] != (0, 2 ** w - 1) or ptype(fn, 1) not in ITY:
            raise dtable.Undecidable("%s: %s does not take (unsigned %d-bit word, integer count)" % (fn.loc, fn.full, w))
        clo, chi = ITY[ptype(fn, 1)]
        m = (1 << w) - 1
        pats = [0, 1, m, 1 << (w - 1), (1 << (w - 1)) | 1, 0x0123456789ABCDEF & m, 0xDEADBEEF00C0FFEE >> (64 - w), 0x00FF00FF00FF0080 & m, 0xFEDCBA9876543210 >> (64 - w)]
        counts = [c for c in list(range(0, 2 * w + 1)) + [-1, -2, -w + 1, -w, -w - 1, -2 * w, 255, 256, 257, clo, clo + 1, chi - 1, chi] if clo <= c <= chi]

        def ref(x, c):
            k = c % w if left else (-c) % w
            return ((x << k) | (x >> (w - k))) & m if k else x
        decide_values(ck, tu, "ROTATE-FRONT", fn, "%s%d" % (name, w), [(x, c) for x in pats for c in counts], ref,
                      "rotation %s by count mod %d" % ("left" if left else "right", w), asm=x86_rotate_asm, fmt=hex)
    for name, left in (("rol", True), ("ror", False)):
        for w in (32, 64):
            ck.guarded(lambda name=name, left=left, w=w: one(name, left, w))


# ---- abs_diff, sgn, div_ceil, round_up
def edge_family(t):
    """the extremes of the type and their neighbours, the values around 0, some small values, the values around the middle"""
    lo, hi = ITY[t]
    vs = {lo, lo + 1, lo + 2, -3, -2, -1, 0, 1, 2, 3, 7, 8, 100, hi // 2, hi // 2 + 1, hi - 2, hi - 1, hi, 2 ** 31 - 1, 2 ** 31, 2 ** 32 - 1, 2 ** 32}
    return sorted(v for v in vs if lo <= v <= hi)


def check_arith_values(ck, tu):
    """ABS-DIFF-VALUE, SGN-VALUE, DIV-CEIL-VALUE, ROUND-UP-VALUE: every instantiation of the four templates is evaluated
      abs_diff(a, b)  'absolute difference, which also works for unsigned types': |a - b| for all pairs of edge_family when
                      it is representable in T (for a signed T the difference of the extremes is not: not demanded)
      sgn(v)          'the signum (-1, 0, +1)': pow2_family
      div_ceil(n, k)  'n div k with rounding up, for n and k positive!': ceil(n / k) for n >= 1, k >= 1
      round_up(n, k)  'round n up to the next multiple of k, for n and k positive!': the smallest multiple of k that is >= n
                      for n >= 1, k >= 1 when it is representable
    (0 and negative arguments are outside the documented domain of the last two: not demanded)"""
    def types(fn, n):
        ts = [ptype(fn, i) for i in range(len(fn.params))]
        rt = bare(fn.d.get("ret"))
        if len(ts) != n or any(t not in ITY or t == "bool" for t in ts) or rt not in ITY:
            raise dtable.Undecidable("%s: %s: parameter / result types %s -> %s not modelled" % (fn.loc, fn.full, ts, rt))
        return ts, rt

    def tag(fn):
        return fn.full.split("::")[-1]

    def abs_diff(fn):
        (ta, tb), rt = types(fn, 2)
        lo, hi = ITY[rt]
        decide_values(ck, tu, "ABS-DIFF-VALUE", fn, tag(fn), [(a, b) for a in edge_family(ta) for b in edge_family(tb)],
                      lambda a, b: abs(a - b) if abs(a - b) <= hi else None, "|a - b| when representable")

    def sgn(fn):
        (t,), rt = types(fn, 1)
        decide_values(ck, tu, "SGN-VALUE", fn, tag(fn), [(v,) for v in pow2_family(t)], lambda v: (v > 0) - (v < 0), "-1, 0, +1 as v < 0, v == 0, v > 0")

    def nk_points(tn, tk):
        hn, hk = ITY[tn][1], ITY[tk][1]
        ks = [k for k in (1, 2, 3, 4, 7, 8, 10, 1000, 65536, 2 ** 31 - 1, 2 ** 31, hk // 2, hk // 2 + 1, hk - 1, hk) if 1 <= k <= hk]
        ns = set(n for n in (1, 2, 3, 4, 5, 7, 8, 9, 12, 16, 17, 999, 1000, 1001, 2 ** 31 - 1, 2 ** 31, 2 ** 32 - 1, 2 ** 32, hn // 2, hn // 2 + 1, hn - 2, hn - 1, hn))
        pts = set()
        for k in ks:
            for n in ns | {k * q + d for q in (1, 2, 3, 5) for d in (-1, 0, 1)} | {hn - hn % k - 1, hn - hn % k, hn - hn % k + 1}:
                if 1 <= n <= hn:
                    pts.add((n, k))
        return sorted(pts)

    def div_ceil(fn):
        (tn, tk), rt = types(fn, 2)
        hi = ITY[rt][1]
        decide_values(ck, tu, "DIV-CEIL-VALUE", fn, tag(fn), nk_points(tn, tk),
                      lambda n, k: -(-n // k) if -(-n // k) <= hi else None, "ceil(n / k) for n, k >= 1")

    def round_up(fn):
        (tn, tk), rt = types(fn, 2)
        hi = ITY[rt][1]
        decide_values(ck, tu, "ROUND-UP-VALUE", fn, tag(fn), nk_points(tn, tk),
                      lambda n, k: -(-n // k) * k if -(-n // k) * k <= hi else None, "smallest multiple of k >= n for n, k >= 1 when representable")
    for q, rule in (("tlx::abs_diff", abs_diff), ("tlx::sgn", sgn), ("tlx::div_ceil", div_ceil), ("tlx::round_up", round_up)):
        fns = tu.find(qname=q)
        if not fns:
            ck.guarded(lambda q=q: ck.require(False, "no instantiation of %s in the witness IR" % q))
        for fn in fns:
            ck.guarded(lambda rule=rule, fn=fn: rule(fn))


# ---------------------------------------------------------------- Aggregate
AG = "tlx::Aggregate"
FIELDS = ("count_", "mean_", "nvar_", "min_", "max_")
CTORS = ("CXXConstructExpr", "CXXTemporaryObjectExpr")


class AggVal:
    """an Aggregate held by value during an evaluation (a constructed temporary, a local object, a snapshot of *this)"""
    def __init__(self, fields):
        self.fields = dict(fields)


class PairVal:
    """a std::pair of two numbers held by value during an evaluation (std::make_pair, a two-argument construction, a copy)"""
    def __init__(self, first, second):
        self.first, self.second = first, second


def unwrapped(n):
    """the expression under casts, parentheses and temporary wrappers"""
    n = strip_casts(n)
    while n is not None and n["k"] in ("ParenExpr", "ExprWithCleanups", "MaterializeTemporaryExpr", "CXXBindTemporaryExpr") and kids(n):
        n = strip_casts(kids(n)[0])
    return n


def agg_run(tu, f, this_state, other=None, other_did=None, args=None, depth=0, stubs=None):
    """evaluates the member function f of Aggregate exactly (counts and min/max are integers, mean and nvar rationals) on the
    object state `this_state`; the Aggregate argument (declaration other_did) has the state `other`.  Whole objects are
    values (AggVal): constructions, copies, `*this = ...`, member functions and operators called on *this / on a local
    object are followed; an object that escapes into anything else makes its fields unknown (None), never "unchanged".
    A std::pair of two numbers is a value too (PairVal): std::make_pair / a two-argument construction build it, .first and
    .second read it, `std::tie(x, y) = pair` stores its components into the two objects named (the right side is evaluated
    completely before the first store, as the call of operator= demands).
    stubs: {declaration id of a member function: value}: a call of that function is not followed but yields the value (used
    to see into which field the result of a helper flows).
    -> (return value, final fields, skeleton)"""
    pre = dict(this_state)
    if depth > 4:
        raise dtable.Undecidable("%s: Aggregate member calls nest too deep" % f.loc)

    def is_other(base, sk, maybe_ptr):
        """the expression names the Aggregate argument (directly, through a reference or through a pointer to it)"""
        if other_did is None:
            return False
        if ref_of(base) == other_did or sk.lvalue(base) == other_did:
            return True
        return bool(maybe_ptr) and ref_of(base) is not None and sk.load(sk.lvalue(base)) == ("ptr", other_did)

    def cur(sk):
        return {fld: sk.env.get(("field", fld)) for fld in FIELDS}

    def put(sk, fields):
        for fld in FIELDS:
            sk.store(("field", fld), (fields or {}).get(fld))

    def obj_fields(n, sk):
        """fields of the Aggregate an expression denotes, None if not known"""
        if is_this_object(n):
            return cur(sk)
        if is_other(n, sk, False):
            return dict(other) if other is not None else None
        v = sk.ev(n)
        return dict(v.fields) if isinstance(v, AggVal) else None

    def of_aggregate(c):
        return c.get("record") == AG or (c.get("qname") or "").startswith(AG + "::")

    def nested(e, sk, callee, obj, rest):
        """runs the member function `callee` on the object expression obj with the remaining arguments; writes the object back"""
        fields = obj_fields(obj, sk)
        local = sk.ev(obj) if not is_this_object(obj) and not is_other(obj, sk, False) else None
        sub = None
        if fields is not None and callee is not None and callee.body is not None and len(rest) == len(callee.params) and len(rest) <= 1:
            if not rest:
                sub = agg_run(tu, callee, fields, depth=depth + 1, stubs=stubs)
            elif "Aggregate" in (callee.params[0].get("ty") or ""):
                of = obj_fields(rest[0], sk)
                if of is not None:
                    sub = agg_run(tu, callee, fields, of, callee.params[0]["did"], depth=depth + 1, stubs=stubs)
            else:
                sub = agg_run(tu, callee, fields, args={callee.params[0]["did"]: sk.ev(rest[0])}, depth=depth + 1, stubs=stubs)
        if sub is None:
            # not followed: whatever the callee may write is unknown from here on
            if is_this_object(obj):
                put(sk, None)
            elif isinstance(local, AggVal):
                local.fields = {}
            return None
        ret, final, ssk = sub
        sk.log.extend(x for x in ssk.log if x[0] == "div0")
        if is_this_object(obj):
            put(sk, final)
        elif isinstance(local, AggVal):
            local.fields = dict(final)
        return ret

    def raw(e, sk):
        """sees every expression before any wrapper is looked through"""
        k = e["k"]
        if k in CTORS and (e.get("callee") or {}).get("record") == "std::pair":
            a_ = [x for x in kids(e) if x is not None]
            if len(a_) == 2:
                return PairVal(sk.ev(a_[0]), sk.ev(a_[1]))
            if len(a_) == 1:
                v = sk.ev(a_[0])                              # copy / move construction
                return PairVal(v.first, v.second) if isinstance(v, PairVal) else None
            return None
        if stubs and "callee" in e and k not in CTORS and e["callee"].get("did") in stubs:
            return stubs[e["callee"]["did"]]
        if k == "CallExpr" and "callee" in e and e["callee"].get("qname") == "std::make_pair" and len(kids(e)) == 2:
            return PairVal(sk.ev(kids(e)[0]), sk.ev(kids(e)[1]))
        if k == "CXXOperatorCallExpr" and e.get("op") == "=" and "callee" in e and e["callee"].get("record") == "std::tuple" and len(kids(e)) == 2:
            tie = unwrapped(kids(e)[0])
            if tie is not None and tie["k"] == "CallExpr" and "callee" in tie and tie["callee"].get("qname") == "std::tie":
                targets = [x for x in kids(tie) if x is not None]
                v = sk.ev(kids(e)[1])
                vals = [v.first, v.second] if isinstance(v, PairVal) and len(targets) == 2 else [None] * len(targets)
                for t_, x_ in zip(targets, vals):
                    sk.store(sk.lvalue(t_), sk.conv(x_, t_.get("ty")))     # a target that is not modelled: lost write, cannot decide
                return None
        if k in CTORS and of_aggregate(e.get("callee") or {}):
            if len(kids(e)) == 5:
                vals = [sk.ev(a_) for a_ in kids(e)]
                ctor = tu.by_did.get(e["callee"].get("did"))
                if ctor is None:
                    raise dtable.Undecidable("%s: Aggregate constructor not in the IR" % f.loc)
                made = {}
                for i_ in ctor.inits:
                    fld = i_.get("field") or i_.get("name")
                    d_ = ref_of(i_.get("e")) if i_.get("e") is not None else None
                    idx = ctor.param_index(d_) if d_ is not None else None
                    if fld and idx is not None:
                        made[fld] = vals[idx]
                return AggVal(made)
            if len(kids(e)) == 1:
                fields = obj_fields(kids(e)[0], sk)           # copy / move construction
                return AggVal(fields) if fields is not None else None
            return None
        if k == "UnaryOperator" and e.get("op") == "*" and is_this_object(e):
            return AggVal(cur(sk))                            # *this as a value: a snapshot
        if "callee" in e and k not in CTORS:
            c = e["callee"]
            a_ = kids(e)
            callee = tu.by_did.get(c.get("did"))
            if k == "CXXOperatorCallExpr" and e.get("op") == "=" and of_aggregate(c) and len(a_) == 2:
                fields = obj_fields(a_[1], sk)                # whole-object assignment
                if is_this_object(a_[0]):
                    put(sk, fields)
                    return AggVal(cur(sk))
                if ref_of(a_[0]) is not None and isinstance(sk.load(sk.lvalue(a_[0])), AggVal):
                    sk.store(sk.lvalue(a_[0]), AggVal(fields or {}))
                    return sk.load(sk.lvalue(a_[0]))
                return None
            member = bool(a_) and of_aggregate(c) and (e.get("member_call") or k == "CXXOperatorCallExpr")
            if member and is_this_object(a_[0]) and k != "CXXOperatorCallExpr" and callee is not None and callee.body is not None:
                return NotImplemented                         # a member function on *this: the skeleton inlines it
            if member and is_other(a_[0], sk, True):
                if len(a_) == 1 and callee is not None and callee.body is not None and not callee.params and other is not None:
                    return agg_run(tu, callee, other, depth=depth + 1)[0]     # an argument-free accessor called on the argument
                return None
            if member and (is_this_object(a_[0]) or isinstance(sk.ev(a_[0]), AggVal)):
                return nested(e, sk, callee, a_[0], a_[1:])
            # any other call that receives this object: its fields are unknown afterwards
            if any(is_this_object(x) for x in a_ if x is not None):
                put(sk, None)
                return None
        return NotImplemented

    def event(e, sk):
        if e["k"] == "MemberExpr" and kids(e):
            fld = this_field(e)
            if fld:
                key = ("field", fld)
                if key in sk.written and fld in pre and sk.env.get(key) != pre[fld]:
                    sk.log.append(("dirty", sk.cur, fld, None, None, None))
                return NotImplemented
            if is_other(kids(e)[0], sk, e.get("arrow")):
                return (other or {}).get(e["member"])
            if e.get("owner") == "std::pair" and e.get("member") in ("first", "second"):
                v = sk.ev(kids(e)[0])                         # component of a pair (a local object or the result of a call)
                return getattr(v, e["member"]) if isinstance(v, PairVal) else None
            v = sk.ev(kids(e)[0]) if ref_of(kids(e)[0]) is not None else None
            if isinstance(v, AggVal):
                return v.fields.get(e["member"])              # field of a local object
        return NotImplemented
    env = {("field", k_): v_ for k_, v_ in this_state.items()}
    env.update(args or {})
    ret, sk = cxx_run(tu, f, env, event, raw)
    final = {k_[1]: v_ for k_, v_ in sk.env.items() if isinstance(k_, tuple) and len(k_) == 2 and k_[0] == "field"}
    return ret, final, sk


def check_aggregate_T(ck, tu, T):
    fns = {f.name: f for f in tu.find(record=AG) if f.rtargs == [T]}
    ck.require({"operator+", "operator+=", "add"} <= set(fns), "Aggregate<%s> members not instantiated" % T)
    # sample states: (count, mean, nvar, min, max) of *this and of the argument
    states = [(dict(count_=3, mean_=Fraction(7, 2), nvar_=Fraction(5), min_=2, max_=9), dict(count_=5, mean_=Fraction(-2), nvar_=Fraction(11, 3), min_=5, max_=7)),
              (dict(count_=3, mean_=Fraction(1, 3), nvar_=Fraction(2), min_=6, max_=8), dict(count_=4, mean_=Fraction(9), nvar_=Fraction(7), min_=1, max_=20))]

    # sample points of the pooled formulas: (count, mean, nvar) of *this and of the argument
    pts = [(3, Fraction(7, 2), Fraction(5), 5, Fraction(-2), Fraction(11, 3)), (1, Fraction(2), Fraction(0), 4, Fraction(9), Fraction(7)),
           (10, Fraction(1, 3), Fraction(2), 1, Fraction(100), Fraction(0)), (2, Fraction(5), Fraction(1), 2, Fraction(5), Fraction(3))]

    def pooled(fld, n1, m1, v1, n2, m2, v2):
        if fld == "mean_":
            return (m1 * n1 + m2 * n2) / (n1 + n2)
        d = m1 - m2
        return v1 + v2 + d * d * n1 * n2 / (n1 + n2)

    def component(src, ret):
        if isinstance(src[2], tuple):
            return ret.fields.get(src[2][1]) if isinstance(ret, AggVal) else None
        return getattr(ret, src[2]) if src[2] is not None and isinstance(ret, PairVal) else (ret if src[2] is None else None)

    # ---- the helpers that supply the combined mean_ and nvar_: {field: (label, function, component of its result or None)}.
    # combine_means / combine_variance where they exist; otherwise found by data flow: every member function with one
    # Aggregate parameter that operator+ / operator+= call is replaced by a marker value (one per component of a std::pair
    # result) and both operators are evaluated: the helper whose marker arrives unchanged in mean_ (nvar_) of both results is
    # the one that supplies the combined mean (sum of squared deviations).  No such helper at all: the fields of the object
    # operator+ returns stand in for it.  Anything else: cannot decide.
    def find_sources():
        if "combine_means" in fns and "combine_variance" in fns:
            return {"mean_": ("combine_means", fns["combine_means"], None), "nvar_": ("combine_variance", fns["combine_variance"], None)}
        cands = {}
        for op in (fns["operator+"], fns["operator+="]):
            for x in op.nodes():
                h = tu.by_did.get(x["callee"].get("did")) if "callee" in x and x["k"] not in CTORS else None
                if h is not None and h.record == AG and h.rtargs == [T] and h.kind == "method" and h.body is not None and \
                        len(h.params) == 1 and "Aggregate" in (h.params[0].get("ty") or ""):
                    cands[h.did] = h
        marks, stubs = {}, {}
        for n_, h in enumerate(sorted(cands.values(), key=lambda h_: h_.did)):
            rt = bare(h.d.get("ret"))
            m1, m2 = Fraction(987654321 + 2 * n_, 7), Fraction(123456789 + 2 * n_, 11)
            if rt in FTY or (rt in ITY and rt != "bool"):
                stubs[h.did] = m1
                marks[m1] = (h.name, h, None)
            elif rt.replace(" ", "").startswith("std::pair<"):
                stubs[h.did] = PairVal(m1, m2)
                marks[m1] = (h.name + ".first", h, "first")
                marks[m2] = (h.name + ".second", h, "second")
        if not stubs:
            # no helper of its own (the formulas stand in the operators, or the normaliser has inlined a new helper): the
            # mean_ / nvar_ of the object operator+ returns are the combined quantities that are judged
            return {fld: ("operator+", fns["operator+"], ("field", fld)) for fld in ("mean_", "nvar_")}
        mine, theirs = states[0]
        plus, pe = fns["operator+"], fns["operator+="]
        ret, _, _ = agg_run(tu, plus, mine, theirs, plus.params[0]["did"], stubs=stubs)
        _, final, _ = agg_run(tu, pe, mine, theirs, pe.params[0]["did"], stubs=stubs)
        out = {}
        for fld in ("mean_", "nvar_"):
            a_ = ret.fields.get(fld) if isinstance(ret, AggVal) else None
            b_ = final.get(fld)
            found = [x for x in (a_, b_) if isinstance(x, Fraction) and x in marks]
            if len(found) == 2 and a_ == b_:
                out[fld] = marks[a_]
                continue
            # the two operators do not take the quantity from the same place: the one place among them that does compute the
            # pooled quantity on every sample point is the helper, and the operator that does not use it is judged against it
            good = []
            for x in sorted(set(found)):
                src = marks[x]
                vals = [component(src, agg_run(tu, src[1], dict(count_=n1, mean_=m1, nvar_=v1, min_=0, max_=0), dict(count_=n2, mean_=m2, nvar_=v2, min_=0, max_=0),
                                               src[1].params[0]["did"])[0]) for (n1, m1, v1, n2, m2, v2) in pts]
                if all(numeric(v_) and v_ == pooled(fld, *pt) for v_, pt in zip(vals, pts)):
                    good.append(src)
            if len(good) != 1:
                raise dtable.Undecidable("%s: which helper supplies the combined %s of operator+ and operator+= is not understood" % (plus.loc, fld))
            out[fld] = good[0]
        return out
    sources = find_sources()
    labels = [sources["mean_"][0], sources["nvar_"][0]]

    def helper(fld, mine, theirs):
        label, h, _ = sources[fld]
        ret, _, sk = agg_run(tu, h, mine, theirs, h.params[0]["did"])
        ret = component(sources[fld], ret)
        if not numeric(ret):
            raise dtable.Undecidable("%s: %s cannot be evaluated on a sample state" % (h.loc, label))
        return ret

    def wanted(mine, theirs):
        return {"count_": mine["count_"] + theirs["count_"], "min_": min(mine["min_"], theirs["min_"]), "max_": max(mine["max_"], theirs["max_"]),
                "mean_": helper("mean_", mine, theirs), "nvar_": helper("nvar_", mine, theirs)}

    # ---- pre-state purity of operator+=: evaluated on a sample state; a field that is read after it was overwritten with
    # another value AND a combined quantity that differs from the one computed on the pre-state
    def purity():
        fn = fns["operator+="]
        mine, theirs = states[0]
        _, final, sk = agg_run(tu, fn, mine, theirs, fn.params[0]["did"])
        want = wanted(mine, theirs)
        dirty = [x for x in sk.log if x[0] == "dirty"]
        undecided = [k_ for k_ in want if not numeric(final.get(k_))]
        wrong = [k_ for k_ in want if numeric(final.get(k_)) and final[k_] != want[k_]]
        if dirty and wrong:
            s, flds = dirty[0][1], sorted(set(x[2] for x in dirty if x[1] is dirty[0][1]))
            ck.violation("PRESTATE-PURITY", fn.qname, "%s:%s" % (T, ",".join(flds)),
                         "operator+= computes %s from %s after it was already overwritten: the combined value mixes the old and the new state "
                         "(on a sample state %s becomes %s instead of %s)"
                         % (dtable.describe(s)[:60], flds, wrong[0], final[wrong[0]], want[wrong[0]]), fn.nloc(s) if s is not None else fn.loc)
        elif dirty and undecided:
            raise dtable.Undecidable("%s: operator+= reads %s after overwriting it and %s cannot be evaluated" % (fn.loc, dirty[0][2], undecided[0]))
        else:
            ck.ok("PRESTATE-PURITY", "Aggregate<%s>::operator+=" % T, "every combined quantity is computed from the pre-state")
    ck.guarded(purity)

    # ---- operator+ and operator+= each combine the five quantities: evaluated on two sample states
    def combines(opname):
        f = fns[opname]
        for mine, theirs in states:
            ret, final, sk = agg_run(tu, f, mine, theirs, f.params[0]["did"])
            result = final if opname == "operator+=" else (ret.fields if isinstance(ret, AggVal) else {})
            want = wanted(mine, theirs)
            undecided = [k_ for k_ in want if not numeric(result.get(k_))]
            wrong = [k_ for k_ in want if numeric(result.get(k_)) and result[k_] != want[k_]]
            if wrong:
                k_ = wrong[0]
                ck.violation("PLUS-COMBINES", f.qname, "%s:%s" % (T, k_),
                             "%s of (count %d, min %d, max %d) and (count %d, min %d, max %d) leaves %s = %s; it must be %s (count added, mean and variance "
                             "through %s / %s of the argument on the pre-state, min and max of both)"
                             % (opname, mine["count_"], mine["min_"], mine["max_"], theirs["count_"], theirs["min_"], theirs["max_"], k_, result.get(k_), want[k_], labels[0], labels[1]), f.loc)
                return
            if undecided:
                raise dtable.Undecidable("%s: %s: the resulting %s cannot be evaluated on a sample state" % (f.loc, opname, undecided[0]))
        ck.ok("PLUS-COMBINES", "Aggregate<%s>::%s" % (T, opname), "count, mean, variance, min, max combined from the pre-state on two sample states")
    for opname in ("operator+", "operator+="):
        ck.guarded(lambda opname=opname: combines(opname))

    # ---- formulas of the helpers, exactly, on sample points
    def formula(fld):
        name, f, _ = sources[fld]
        for (n1, m1, v1, n2, m2, v2) in pts:
            mine = dict(count_=n1, mean_=m1, nvar_=v1, min_=0, max_=0)
            theirs = dict(count_=n2, mean_=m2, nvar_=v2, min_=0, max_=0)
            got, _, sk = agg_run(tu, f, mine, theirs, f.params[0]["did"])
            got = component(sources[fld], got)
            want = pooled(fld, n1, m1, v1, n2, m2, v2)
            if not numeric(got):
                raise dtable.Undecidable("%s: return expression is not plain arithmetic" % f.loc)
            if got != want:
                ck.violation("COMBINE-FORMULA", f.qname, "%s:%s" % (T, name),
                             "%s is not the pooled %s: for counts (%d,%d), means (%s,%s) it yields %s instead of %s"
                             % (name, "mean" if fld == "mean_" else "sum of squared deviations", n1, n2, m1, m2, got, want), f.loc)
                return
        ck.ok("COMBINE-FORMULA", "Aggregate<%s>::%s" % (T, name), "equals the pooled formula exactly on %d rational sample points (identity test)" % len(pts))
    for fld in ("mean_", "nvar_"):
        ck.guarded(lambda fld=fld: formula(fld))

    # ---- zero guards of the shared denominator: the helpers are evaluated with one and with two empty operands
    def divguard(fld):
        name, f, _ = sources[fld]
        empty = dict(count_=0, mean_=Fraction(0), nvar_=Fraction(0), min_=10 ** 9, max_=-10 ** 9)
        full = dict(count_=4, mean_=Fraction(5, 2), nvar_=Fraction(3), min_=1, max_=6)
        for mine, theirs, what in ((empty, empty, "two empty aggregates"), (empty, full, "an empty aggregate and a filled argument"),
                                   (full, empty, "a filled aggregate and an empty argument")):
            got, _, sk = agg_run(tu, f, dict(mine), dict(theirs), f.params[0]["did"])
            got = component(sources[fld], got)
            div0 = [x for x in sk.log if x[0] == "div0"]
            if div0:
                d = div0[0][1]
                ck.violation("DIV-GUARD", f.qname, "%s:%s" % (T, name), "division by count_ + other.count_ without excluding two empty aggregates (0/0 -> NaN): "
                             "%s divides by zero for %s" % (dtable.describe(d)[:70], what), f.nloc(d))
                return
            if not numeric(got):
                raise dtable.Undecidable("%s: %s cannot be evaluated for %s" % (f.loc, name, what))
        ck.ok("DIV-GUARD", "Aggregate<%s>::%s" % (T, name), "count_ + other.count_ cannot be zero at the division (evaluated with one and with two empty operands)")
    for fld in ("mean_", "nvar_"):
        ck.guarded(lambda fld=fld: divguard(fld))

    # ---- add(): count incremented before it divides: add(value) evaluated on the empty aggregate
    def addorder():
        f = fns["add"]
        empty = dict(count_=0, mean_=Fraction(0), nvar_=Fraction(0), min_=10 ** 9, max_=-10 ** 9)
        try:
            _, final, sk = agg_run(tu, f, empty, args={f.params[0]["did"]: 5})
        except dtable.Undecidable as u:
            raise dtable.Undecidable("%s: add() cannot be evaluated on the empty aggregate (%s)" % (f.loc, u))
        div0 = [x for x in sk.log if x[0] == "div0"]
        if div0:
            ck.violation("ADD-ORDER", f.qname, T, "the running mean divides by count_ before it was incremented (division by zero for the first value): %s"
                         % dtable.describe(div0[0][1])[:70], f.nloc(div0[0][1]))
        elif final.get("count_") != 1 or not numeric(final.get("mean_")):
            raise dtable.Undecidable("%s: add() on the empty aggregate leaves count_ = %s, mean_ = %s: not understood"
                                     % (f.loc, final.get("count_"), final.get("mean_")))
        else:
            ck.ok("ADD-ORDER", "Aggregate<%s>::add" % T, "count_ is incremented before the running mean divides by it")
    ck.guarded(addorder)


def check_aggregate(ck, tu):
    for T in ("double", "int"):
        ck.guarded(lambda T=T: check_aggregate_T(ck, tu, T))


def run(ck):
    ck.explanation = (
        "Every rule evaluates the extracted code with C++ value semantics (LP64; conversions wrap, unsigned arithmetic is modular, signed overflow, "
        "over-wide shifts, division by zero and a clz/ctz intrinsic on 0 are recorded as undefined behaviour; callees, intrinsics and bounded loops are "
        "followed) and reports a violation only with a concrete counterexample; a form that cannot be evaluated is 'cannot decide'. "
        "Value rules: FAMILY-VALUE decides every overload of clz, ctz, ffs, popcount, integer_log2_floor/ceil, is_power_of_two, round_up/down_to_power_of_two "
        "for the six integer types on 0, 1, 2^k-1, 2^k, 2^k+1 for every k, the type's maximum, and for signed types the minimum and -(2^k)-1, -(2^k), "
        "-(2^k)+1, against the documented definition (clz/ctz(0) = width, ffs(0) = 0, log2_floor(0) = 0, round_down(0) = 0 as the code's explicit guards "
        "say; integer_log2_ceil for i <= 0, round_up_to_power_of_two for i <= 0 and above the largest power of two, and negative arguments of the log2 / "
        "rounding helpers are left open by the headers and nothing is demanded there). TEMPLATE-VALUE does the same for every instantiation of the generic "
        "loop templates in the witness (clz_template, ctz_template, ffs_template, round_up_to_power_of_two_template for the six types) and decides "
        "popcount_generic8 on all 256 values and popcount_generic16/32/64 on all one- and two-bit patterns, neighbours of powers of two and their "
        "complements, the SWAR masks and 64 fixed pseudo-random words; both sides of the intrinsic / fall-back pair are thus compared with one reference. "
        "ROTATE-FRONT evaluates rol32/rol64/ror32/ror64 as callers get them (the x86 inline assembly `rol|ror %cl, reg` is modelled exactly: count = low "
        "byte masked to 5 / 6 bits; any other assembly text is 'cannot decide') for every count 0..2*width, negative counts and the extremes of int on nine "
        "bit patterns. ABS-DIFF-VALUE (all pairs of the extremes, their neighbours, small and middle values; |a-b| when representable), SGN-VALUE, "
        "DIV-CEIL-VALUE and ROUND-UP-VALUE (n, k >= 1 incl. exact multiples and their neighbours, the type's maximum; the result when representable) decide "
        "the four small templates per instantiation. "
        "Structure-triggered rules: every family is defined for the six integer types (FAMILY-COMPLETE); an intrinsic of another operand width than its "
        "parameter, a missing dominating zero test before a clz/ctz intrinsic and a signed overload that does not forward to its same-width counterpart "
        "are suspicions that are confirmed or refuted by the evaluation (INTRINSIC-WIDTH, INTRINSIC-GUARD, SIGNED-FORWARD). The portable bswap and rotate "
        "fall-backs are decided completely by symbolic bit provenance (every result bit traced to its input bit, for every rotation amount). Total helpers "
        "must not wrap an addition on the raw argument before narrowing (div_ceil, round_up, round_down_to_power_of_two; evaluated at the type's maximum) "
        "and the power-of-two predicate must be total without signed overflow (BOOL-TOTAL). Aggregate: operator+= computes every quantity from the "
        "pre-state, + and += combine the five quantities through the same helpers, the helpers equal the pooled mean / sum-of-squares formulas exactly "
        "(rational evaluation of the extracted expressions), the shared denominator is guarded against two empty operands, add() increments the count "
        "before it divides by it (ADD-ORDER). "
        "Not decided: values outside the argument families (the 64-bit domain is sampled, not exhausted), 8/16-bit instantiations of the loop templates and "
        "integer_log2_floor_template (the witness does not instantiate them), the MSVC branches, popcount over a memory range, agreement of the compiler "
        "intrinsics and of the x86 rotate instructions with their documented semantics (trusted), floating-point rounding.")
    tu = ir.extract("witness/C20_math.cpp")
    check_families(ck, tu)
    check_bits(ck, tu)
    check_overflow(ck, tu)
    check_bool_total(ck, tu)
    check_family_values(ck, tu)
    check_template_values(ck, tu)
    check_rotate_front(ck, tu)
    check_arith_values(ck, tu)
    check_aggregate(ck, tu)
    ck.floor("FAMILY-COMPLETE", 9)
    ck.floor("INTRINSIC-WIDTH", 20)
    ck.floor("INTRINSIC-GUARD", 6)
    ck.floor("SIGNED-FORWARD", 9)
    ck.floor("BIT-PROVENANCE", 7)
    ck.floor("NO-OVERFLOW-BEFORE-NARROW", 18)
    ck.floor("BOOL-TOTAL", 6)
    ck.floor("PRESTATE-PURITY", 2)
    ck.floor("PLUS-COMBINES", 4)
    ck.floor("COMBINE-FORMULA", 4)
    ck.floor("DIV-GUARD", 4)
    ck.floor("ADD-ORDER", 2)             # Aggregate<double>::add, Aggregate<int>::add
    ck.floor("FAMILY-VALUE", 54)         # nine families x six integer types
    ck.floor("TEMPLATE-VALUE", 28)       # clz_ / ctz_ / ffs_ / round_up_to_power_of_two_template x six types, popcount_generic8/16/32/64
    ck.floor("ROTATE-FRONT", 4)          # rol32 rol64 ror32 ror64
    ck.floor("ABS-DIFF-VALUE", 6)
    ck.floor("SGN-VALUE", 6)
    ck.floor("DIV-CEIL-VALUE", 6)
    ck.floor("ROUND-UP-VALUE", 6)
