"""C20 — integer math helpers and Aggregate: family completeness, intrinsic guards and
widths, signed forwarding, bit provenance of the portable fall-backs, overflow before
narrowing, total predicates, Aggregate pre-state purity / twin formulas / guards.

Verdict policy of this file: a violation is reported only on positive evidence, i.e. a concrete counterexample produced by
an evaluation of the extracted code (a value for which the helper yields the wrong result or reaches undefined behaviour, a
result bit that comes from the wrong input bit, a sample state on which operator+= leaves a wrong field).  The structural
shapes of the first version (dominating zero test, intrinsic suffix, cast to the same-width counterpart, `param + const`)
are kept as the fast path that establishes "holds" and as the *suspicion* that triggers an evaluation; a suspicion that the
evaluation cannot confirm or refute is "cannot decide" (exit 2), never a violation."""
from fractions import Fraction

from engine import ir, dtable, match, skel, cfg as cfgm
from engine.ir import kids, strip_casts, const_int, ref_of

INTS = ["int", "unsigned int", "long", "unsigned long", "long long", "unsigned long long"]
WIDTH = {"int": 32, "unsigned int": 32, "long": 64, "unsigned long": 64, "long long": 64, "unsigned long long": 64}
FAMILIES = ["clz", "ctz", "ffs", "popcount", "integer_log2_floor", "integer_log2_ceil", "is_power_of_two",
            "round_up_to_power_of_two", "round_down_to_power_of_two"]
BUILTIN_W = {"": 32, "l": 64, "ll": 64}
BUILTIN_BASES = ("__builtin_clz", "__builtin_ctz", "__builtin_ffs", "__builtin_popcount")

# value ranges of the integer types as tlxir prints them (canonical spelling, LP64)
ITY = {"bool": (0, 1), "char": (-128, 127), "signed char": (-128, 127), "unsigned char": (0, 255),
       "short": (-2 ** 15, 2 ** 15 - 1), "unsigned short": (0, 2 ** 16 - 1), "int": (-2 ** 31, 2 ** 31 - 1), "unsigned int": (0, 2 ** 32 - 1),
       "long": (-2 ** 63, 2 ** 63 - 1), "unsigned long": (0, 2 ** 64 - 1), "long long": (-2 ** 63, 2 ** 63 - 1),
       "unsigned long long": (0, 2 ** 64 - 1)}
FTY = ("float", "double", "long double")
NUMCASTS = ("ImplicitCastExpr", "CStyleCastExpr", "CXXStaticCastExpr", "CXXFunctionalCastExpr")


def bare(ty):
    return (ty or "").replace("const ", "").replace("volatile ", "").replace("&", "").strip()


def ptype(fn, i=0):
    return bare(fn.params[i]["ty"])


def irange(ty):
    return ITY.get(bare(ty))


def iwidth(ty):
    r = irange(ty)
    return None if r is None else (r[1] - r[0]).bit_length()


def wrap(v, rng):
    return (v - rng[0]) % (rng[1] - rng[0] + 1) + rng[0]


def numeric(v):
    return isinstance(v, (int, Fraction))


def is_this_object(n):
    """the expression is `this` or `*this`"""
    n = strip_casts(n)
    if n is None:
        return False
    if n["k"] == "This":
        return True
    return n["k"] == "UnaryOperator" and n.get("op") == "*" and bool(kids(n)) and (strip_casts(kids(n)[0]) or {}).get("k") == "This"


def this_field(n):
    """field name if n is this->f, (*this).f or f (implicit this)"""
    n = strip_casts(n)
    if n is not None and n["k"] == "MemberExpr" and kids(n) and is_this_object(kids(n)[0]):
        return n["member"]
    return None


# ---------------------------------------------------------------- evaluation with C++ value semantics
class CSkel(skel.Skel):
    """the integer skeleton with the value semantics of C++ on an LP64 target: every integral conversion wraps to its target
    type, unsigned arithmetic is modular, a signed result outside its type and a shift by a negative amount / by the width
    or more are recorded as undefined behaviour in `log`, `/` is truncating for integral and exact (Fraction) for floating
    types and a division by zero is recorded.  Values that are data stay None: whoever needs them cannot decide."""

    def __init__(self, *a, **kw):
        super().__init__(*a, **kw)
        self.log = []
        self.written = set()
        self.cur = None
        self.top = self.fn
        self.raw = None          # optional: sees every expression before casts / converting constructions are looked through

    def conv(self, v, ty):
        t = bare(ty)
        if not numeric(v):
            return v
        if t == "bool":
            return v != 0
        if t in ITY:
            return wrap(int(v), ITY[t])          # int(Fraction) truncates towards zero like a floating -> integral conversion
        if isinstance(v, bool):
            return int(v)
        return v

    def _fit(self, r, e, op, a, b, ty=None):
        """brings the exact result r of a (op) b to the type of node e"""
        rng = irange(ty if ty is not None else e.get("ty"))
        if rng is None or not isinstance(r, int) or isinstance(r, bool):
            return r
        if not rng[0] <= r <= rng[1]:
            if rng[0] < 0 and rng[1] >= 2 ** 31 - 1 and op in ("+", "-", "*", "++", "--", "neg"):
                self.log.append(("overflow", e, op, a, b, r))
            elif rng[0] == 0 and op in ("+", "++", "*"):
                self.log.append(("wrap", e, op, a, b, r))
            r = wrap(r, rng)
        return r

    def ev(self, e):
        if e is None:
            return None
        k = e["k"]
        if self.raw is not None:
            r = self.raw(e, self)
            if r is not NotImplemented:
                return r
        if k in NUMCASTS and kids(e) and (bare(e.get("ty")) in ITY or bare(e.get("ty")) in FTY):
            return self.conv(self.ev(kids(e)[0]), e.get("ty"))
        if k == "MemberExpr" and this_field(e) and not match.this_field(e):
            if self.event is not None:
                r = self.event(e, self)
                if r is not NotImplemented:
                    return r
            return self.env.get(("field", this_field(e)))
        if k == "FloatingLiteral":
            try:
                return Fraction(e["val"]).limit_denominator(10 ** 9)
            except (TypeError, ValueError, KeyError):
                return None
        if k == "UnaryOperator" and e.get("op") in ("++", "--") and kids(e):
            if self.event is not None:
                r = self.event(e, self)
                if r is not NotImplemented:
                    return r
            key = self.lvalue(kids(e)[0])
            old = self.load(key)
            if not numeric(old) or isinstance(old, bool):
                self.store(key, None)
                return None
            new = self._fit(old + (1 if e["op"] == "++" else -1), e, e["op"], old, 1, ty=kids(e)[0].get("ty") or e.get("ty"))
            self.store(key, new)
            return old if e.get("postfix") else new
        r = super().ev(e)
        if k == "UnaryOperator" and e.get("op") in ("-", "~") and isinstance(r, int) and not isinstance(r, bool):
            r = self._fit(r, e, "neg" if e["op"] == "-" else "~", r, None)
        return r

    def arith(self, op, a, b, e):
        if a is None or b is None:
            return None
        if not numeric(a) or not numeric(b):
            return super().arith(op, a, b, e)
        # a compound assignment computes in its computation type and converts the result to the type of its left side
        cty = e.get("cty") if e["k"] == "CompoundAssignOperator" else None
        if cty:
            a = self.conv(a, cty)
        r = self._arith(op, int(a) if isinstance(a, bool) else a, int(b) if isinstance(b, bool) else b, e, bare(cty or e.get("ty")))
        if cty and numeric(r):
            r = self.conv(r, e.get("ty"))
        return r

    def _arith(self, op, a, b, e, ty):
        if op in ("<", "<=", ">", ">=", "==", "!="):
            return {"<": a < b, "<=": a <= b, ">": a > b, ">=": a >= b, "==": a == b, "!=": a != b}[op]
        if op in ("/", "%"):
            if b == 0:
                self.log.append(("div0", e, op, a, b, None))
                return None
            if ty in FTY or isinstance(a, Fraction) or isinstance(b, Fraction):
                return Fraction(a) / Fraction(b) if op == "/" else None
            q = abs(a) // abs(b) * (1 if (a >= 0) == (b >= 0) else -1)
            return self._fit(q if op == "/" else a - q * b, e, op, a, b, ty=ty)
        if op in ("<<", ">>", "&", "|", "^"):
            if not isinstance(a, int) or not isinstance(b, int):
                return None
            if op in ("<<", ">>"):
                w = iwidth(ty)
                if w is None:
                    return None
                if b < 0 or b >= max(w, 32):
                    self.log.append(("shift", e, op, a, b, None))
                    return None
                return self._fit(a << b if op == "<<" else a >> b, e, op, a, b, ty=ty)
            return self._fit({"&": a & b, "|": a | b, "^": a ^ b}[op], e, op, a, b, ty=ty)
        if op in ("+", "-", "*"):
            return self._fit({"+": a + b, "-": a - b, "*": a * b}[op], e, op, a, b, ty=ty)
        return None

    VALUE_CASTS = ("IntegralCast", "IntegralToFloating", "FloatingToIntegral", "IntegralToBoolean", "FloatingCast", "FloatingToBoolean",
                   "BooleanToSignedIntegral")

    def lvalue(self, e):
        # a value conversion yields a temporary, not the object underneath (a const reference bound to it sees the converted value)
        if e is not None and e["k"] in NUMCASTS and e.get("cast") in self.VALUE_CASTS and bare(e.get("from")) != bare(e.get("ty")):
            return None
        if this_field(e):
            return ("field", this_field(e))          # also (*this).f, which the shared matcher does not take for a field of this
        return super().lvalue(e)

    def store(self, key, v):
        if key is not None:
            self.written.add(key)
        else:
            self.log.append(("lostwrite", self.cur, None, None, None, None))      # a write to something the skeleton does not model
        super().store(key, v)

    def inline(self, e, args):
        r = super().inline(e, args)
        if r is NotImplemented:
            # a call that is not followed may write through every non-const lvalue it receives: those objects are unknown now
            for a in args:
                if a is not None and a.get("lv") and not (a.get("ty") or "").startswith("const "):
                    key = self.lvalue(a)
                    if key is not None:
                        self.env[key] = None
        return r

    def stmt(self, s):
        if s is not None and self.depth == 0 and self.fn is self.top and s["k"] != "CompoundStmt":
            self.cur = s
        if s is not None and s["k"] in ("GCCAsmStmt", "MSAsmStmt", "AsmStmt"):
            raise dtable.Undecidable("%s: inline assembly at line %s" % (self.fn.full, s.get("l")))
        super().stmt(s)


def cxx_run(tu, fn, env, event=None, raw=None):
    """-> (return value or None, skeleton)"""
    sk = CSkel(fn, env, None, event, tu=tu)
    sk.raw = raw
    try:
        sk.run(kids(fn.body))
        ret = None
    except skel.Return as r_:
        ret = r_.v
    except skel.Diverges as d_:
        raise dtable.Undecidable("%s: a loop of the skeleton does not end (line %s)" % (fn.loc, (d_.loop or {}).get("l")))
    lost = [x for x in sk.log if x[0] == "lostwrite"]
    if lost:
        # closed world: every write must land in the model, otherwise later values are not the program's values
        raise dtable.Undecidable("%s: %s writes to an object the evaluation does not model" % (fn.loc, dtable.describe(lost[0][1])[:70]))
    return ret, sk


def ub_text(x):
    kind, e = x[0], x[1]
    if kind == "builtin0":
        return "%s is reached with operand 0, for which it is undefined" % x[2]
    if kind == "overflow":
        return "%s overflows its signed type (%s, %s)" % (dtable.describe(e), x[3], x[4])
    if kind == "shift":
        return "%s shifts by %s" % (dtable.describe(e), x[4])
    if kind == "div0":
        return "%s divides by zero" % dtable.describe(e)
    return "%s wraps" % dtable.describe(e)


# ---------------------------------------------------------------- bit-count families
def builtin_parts(name):
    """(base, suffix) of a bit-count intrinsic, None for any other __builtin_"""
    base = name.rstrip("l")
    suf = name[len(base):]
    if base in BUILTIN_BASES and suf in BUILTIN_W:
        return base, suf
    return None


def builtin_event(e, sk):
    """model of the gcc/clang bit-count intrinsics on their own operand width"""
    if e["k"] == "CallExpr" and "callee" in e and e["callee"]["name"].startswith("__builtin_"):
        bp = builtin_parts(e["callee"]["name"])
        if bp is None or len(kids(e)) != 1:
            return None
        v = sk.ev(kids(e)[0])
        if not isinstance(v, int):
            return None
        w = BUILTIN_W[bp[1]]
        u = int(v) % (1 << w)
        if bp[0] in ("__builtin_clz", "__builtin_ctz") and u == 0:
            sk.log.append(("builtin0", e, e["callee"]["name"], v, None, None))
            return None
        if bp[0] == "__builtin_clz":
            return w - u.bit_length()
        if bp[0] == "__builtin_ctz":
            return (u & -u).bit_length() - 1
        if bp[0] == "__builtin_ffs":
            return 0 if u == 0 else (u & -u).bit_length()
        return bin(u).count("1")
    return NotImplemented


def family_samples(t):
    lo, hi = ITY[t]
    vs = {0, 1, 2, 3, 5, 6, 8, 12, 255, 256, 65535, 65536, 2 ** 31 - 1, 2 ** 31, 2 ** 31 + 1, 2 ** 32 - 1, 2 ** 32, 2 ** 32 + 2, 2 ** 40, 2 ** 40 + 8,
          3 << 45, hi, hi - 1, (hi + 1) // 2, -1, -2, -8, lo, lo + 1, -2 ** 31, -2 ** 31 - 1, -2 ** 40}
    return sorted(v for v in vs if lo <= v <= hi)


def family_ref(fam, v, t):
    """the mathematical definition on the two's complement representation; None: no reference for this point"""
    w = WIDTH[t]
    u = v % (1 << w)
    if fam == "clz":
        return w - u.bit_length()
    if fam == "ctz":
        return w if u == 0 else (u & -u).bit_length() - 1
    if fam == "ffs":
        return 0 if u == 0 else (u & -u).bit_length()
    if fam == "popcount":
        return bin(u).count("1")
    if fam == "integer_log2_floor":
        return None if v < 0 else (0 if v == 0 else v.bit_length() - 1)
    if fam == "is_power_of_two":
        return int(v > 0 and (v & (v - 1)) == 0)
    return None


def family_deviation(tu, fn, fam, t):
    """first sample value on which the overload deviates from the family's definition: (value, what it yields, reference) or
    None; Undecidable if the overload cannot be evaluated"""
    tested = 0
    for v in family_samples(t):
        want = family_ref(fam, v, t)
        if want is None:
            continue
        ret, sk = cxx_run(tu, fn, {fn.params[0]["did"]: v}, builtin_event)
        tested += 1
        ub = [x for x in sk.log if x[0] in ("builtin0", "overflow", "shift", "div0")]
        if ub:
            return v, "undefined: " + ub_text(ub[0]), want
        if not numeric(ret):
            raise dtable.Undecidable("%s: %s(%d) [%s] cannot be evaluated on the integer skeleton" % (fn.loc, fam, v, t))
        if int(ret) != want:
            return v, int(ret), want
    if not tested:
        raise dtable.Undecidable("%s: no reference semantics for %s to judge an unusual implementation" % (fn.loc, fam))
    return None


def check_family(ck, tu, fam):
    allf = tu.find(qname="tlx::" + fam)
    fns = [f for f in allf if len(f.params) == 1]
    have = sorted(set(ptype(f) for f in fns))
    miss = [t for t in INTS if t not in have]
    if miss:
        # closed world: every definition named tlx::<fam> is in the IR; a definition with another arity may still serve the type
        odd = [f for f in allf if len(f.params) != 1 and f.params and ptype(f) in miss]
        if odd:
            raise dtable.Undecidable("%s: %s for %s has %d parameters, not understood" % (odd[0].loc, fam, ptype(odd[0]), len(odd[0].params)))
        ck.violation("FAMILY-COMPLETE", "tlx::" + fam, fam, "no overload / specialisation of %s for %s" % (fam, miss), "tlx/math")
    else:
        ck.ok("FAMILY-COMPLETE", fam, "defined for all six integer types", nontrivial=False)
    for fn in fns:
        t = ptype(fn)
        if t not in WIDTH:
            continue
        ck.guarded(lambda fn=fn, t=t: check_overload(ck, tu, fam, fn, t))


def check_overload(ck, tu, fam, fn, t):
    tag = "%s(%s)" % (fam, t)
    calls = [x for x in fn.nodes() if "callee" in x and x["k"] == "CallExpr"]
    builtins = [c for c in calls if c["callee"]["name"].startswith("__builtin_")]
    fwd = [c for c in calls if c["callee"]["qname"] == "tlx::" + fam]
    memo = {}

    def deviation():
        if "d" not in memo:
            memo["d"] = family_deviation(tu, fn, fam, t)
        return memo["d"]

    def shown(d):
        return "%s(%d) yields %s, must be %s" % (fam, d[0], d[1], d[2])
    for b in builtins:
        name = b["callee"]["name"]
        bp = builtin_parts(name)
        if bp is None:
            raise dtable.Undecidable("%s: intrinsic %s is not modelled" % (fn.nloc(b), name))
        base, suf = bp
        # width: the suffix names the operand width.  Another width is only a suspicion (a wider intrinsic on a zero-extended
        # operand, two half-width calls, ... can be right): the overload is evaluated against the family's definition
        szs = [y for y in fn.nodes() if y["k"] == "UnaryExprOrTypeTraitExpr"]
        bad_sz = [y for y in szs if const_int(y) is not None and const_int(y) * 8 != WIDTH[t]]
        if BUILTIN_W[suf] != WIDTH[t]:
            d = deviation()
            if d:
                ck.violation("INTRINSIC-WIDTH", fn.qname, tag, "%s (%d-bit operand) is used for %s (%d bits): %s"
                             % (name, BUILTIN_W[suf], t, WIDTH[t], shown(d)), fn.nloc(b))
            else:
                ck.ok("INTRINSIC-WIDTH", tag, "%s on a %d-bit operand, equal to %s on every sample value" % (name, BUILTIN_W[suf], fam))
        elif bad_sz:
            d = deviation()
            if d:
                ck.violation("INTRINSIC-WIDTH", fn.qname, tag + ":sizeof", "sizeof(%s) does not name the %d-bit parameter type: %s"
                             % (bad_sz[0].get("argty"), WIDTH[t], shown(d)), fn.nloc(bad_sz[0]))
            else:
                ck.ok("INTRINSIC-WIDTH", tag, "%s on a %d-bit operand, equal to %s on every sample value" % (name, WIDTH[t], fam))
        else:
            ck.ok("INTRINSIC-WIDTH", tag, "%s on a %d-bit operand" % (name, WIDTH[t]), nontrivial=False)
        # zero guard for clz/ctz (undefined for 0)
        if base in ("__builtin_clz", "__builtin_ctz"):
            g = cfgm.CFG(fn)
            guarded = False
            for y in fn.nodes():
                if y["k"] == "IfStmt":
                    c = match.binop(kids(y)[0], ("==",))
                    if c and ref_of(c[1]) == fn.params[0]["did"] and const_int(c[2]) == 0 and \
                            any(z["k"] == "ReturnStmt" for z in ir.walk(kids(y)[1])):
                        pc, pb = g.pos_deep(kids(y)[0]), g.pos_deep(b)
                        if pc is not None and pb is not None and g.dominates(pc, pb):
                            guarded = True
            # the overload is evaluated for the argument 0 (any spelling of the guard: x != 0 ? .. : .., !x, 0 == x, x | 1, a
            # helper ...); the dominating zero test decides only where the evaluation is not possible
            try:
                ret, sk = cxx_run(tu, fn, {fn.params[0]["did"]: 0}, builtin_event)
                hit = [x for x in sk.log if x[0] == "builtin0" and x[2] == name]
                evaluated = bool(hit) or numeric(ret)
            except dtable.Undecidable:
                hit, evaluated = [], False
            if hit:
                ck.violation("INTRINSIC-GUARD", fn.qname, tag, "%s is undefined for 0 but is reached without a zero test "
                             "(evaluated for the argument 0: operand %s)" % (name, hit[0][3]), fn.nloc(b))
            elif guarded:
                ck.ok("INTRINSIC-GUARD", tag, "%s is dominated by the zero test" % name)
            elif evaluated:
                ck.ok("INTRINSIC-GUARD", tag, "%s is not reached with operand 0 when the argument is 0 (evaluated)" % name)
            else:
                raise dtable.Undecidable("%s: %s(0) cannot be evaluated: is %s guarded against 0?" % (fn.loc, fam, name))
    if fwd and not builtins and fam not in ("integer_log2_ceil",):
        # forwarding overload: argument is the parameter cast to the same-width counterpart
        a = kids(fwd[0])[0] if kids(fwd[0]) else None
        to = bare(a.get("ty")) if a is not None else ""
        inner = strip_casts(a)
        if a is not None and ref_of(inner) == fn.params[0]["did"] and WIDTH.get(to) == WIDTH[t] and to != t:
            ck.ok("SIGNED-FORWARD", tag, "forwards to the %s overload of the same width" % to, nontrivial=False)
        else:
            # a local copy, another argument expression, another width: decided by what the overload computes
            d = deviation()
            if d:
                ck.violation("SIGNED-FORWARD", fn.qname, tag, "forwards to %s(%s): not the same-width counterpart of %s: %s"
                             % (fam, to, t, shown(d)), fn.nloc(fwd[0]))
            else:
                ck.ok("SIGNED-FORWARD", tag, "forwards to %s(%s), equal to %s on every sample value" % (fam, to, fam))


def check_families(ck, tu):
    for fam in FAMILIES:
        ck.guarded(lambda fam=fam: check_family(ck, tu, fam))


# ---------------------------------------------------------------- bit provenance
class ShiftUB(Exception):
    pass


class Bits:
    """symbolic evaluation of straight-line shift/mask code on vectors of 64 bits, each 0, 1, ('x', j) = input bit j or the
    disjunction of several input bits.
    Every value is kept normalised to its C++ type (truncated, then zero- or sign-extended), shifts are checked against the
    width of their promoted left operand, arithmetic is done on constants only.  None = not understood."""
    W = 64

    def __init__(self, tu):
        self.tu = tu
        self.depth = 0

    def const(self, c):
        return [(c >> i) & 1 for i in range(self.W)]

    def fit(self, v, ty):
        r = irange(ty)
        if v is None or r is None:
            return v
        w = (r[1] - r[0]).bit_length()
        if w >= self.W:
            return list(v)
        ext = v[w - 1] if r[0] < 0 else 0
        return list(v[:w]) + [ext] * (self.W - w)

    def as_int(self, v, ty=None):
        if v is None or any(b not in (0, 1) for b in v):
            return None
        n = sum(b << i for i, b in enumerate(v))
        r = irange(ty)
        if (r is None or r[0] < 0) and n >= 1 << (self.W - 1):
            n -= 1 << self.W
        return n

    # a bit is 0, 1, ('x', j) or ('or', frozenset of input bits): the disjunction of positive literals is a canonical form,
    # it equals a single input bit only if the set is that bit; every other mixture of different input bits is None
    @staticmethod
    def _and(x, y):
        return 0 if x == 0 or y == 0 else (y if x == 1 else x if y == 1 else (x if x == y else None))

    @staticmethod
    def _or(x, y):
        if x == 1 or y == 1:
            return 1
        if x == 0:
            return y
        if y == 0 or x == y:
            return x
        sx = x[1] if x[0] == "or" else frozenset([x])
        sy = y[1] if y[0] == "or" else frozenset([y])
        return ("or", sx | sy)

    @staticmethod
    def _xor(x, y):
        if x in (0, 1) and y in (0, 1):
            return x ^ y
        return y if x == 0 else x if y == 0 else (0 if x == y else None)

    def ev(self, e, env):
        if e is None:
            return None
        k = e["k"]
        if k == "DeclRefExpr" and e["ref"]["id"] in env:
            v = env[e["ref"]["id"]]
            return None if v is None else list(v)
        if k == "IntegerLiteral" or "cval" in e or k == "CXXBoolLiteralExpr":
            c = const_int(e)
            return None if c is None else self.fit(self.const(c), e.get("ty"))
        if k in NUMCASTS or k in ("CXXReinterpretCastExpr", "CXXConstCastExpr"):
            v = self.ev(kids(e)[0], env) if kids(e) else None
            return self.fit(v, e.get("ty")) if k in NUMCASTS else v
        if k == "DeclRefExpr":
            v = env.get(e["ref"]["id"])
            return None if v is None else list(v)
        if k == "ConditionalOperator":
            c = self.as_int(self.ev(kids(e)[0], env))
            if c is None:
                return None
            return self.ev(kids(e)[1] if c else kids(e)[2], env)
        if k == "UnaryOperator" and e.get("op") in ("~", "-", "+", "!") and kids(e):
            v = self.ev(kids(e)[0], env)
            if v is None:
                return None
            if e["op"] == "+":
                return v
            n = self.as_int(v, kids(e)[0].get("ty"))
            if n is None:
                return None
            return self.fit(self.const({"~": ~n, "-": -n, "!": int(not n)}[e["op"]]), e.get("ty"))
        if k == "BinaryOperator":
            op, l, r = e["op"], kids(e)[0], kids(e)[1]
            lv, rv = self.ev(l, env), self.ev(r, env)
            if lv is None or rv is None:
                return None
            if op in ("<<", ">>"):
                n = self.as_int(rv, r.get("ty"))
                w = iwidth(e.get("ty"))
                if n is None or w is None:
                    return None
                if n < 0 or n >= max(w, 32):
                    raise ShiftUB(n)
                sign = lv[self.W - 1] if irange(e.get("ty"))[0] < 0 else 0
                out = [0] * n + lv[: self.W - n] if op == "<<" else lv[n:] + [sign] * n
                return self.fit(out, e.get("ty"))
            if op in ("&", "|", "^"):
                f = {"&": self._and, "|": self._or, "^": self._xor}[op]
                out = [f(x, y) for x, y in zip(lv, rv)]
                return None if None in out else self.fit(out, e.get("ty"))
            a, b = self.as_int(lv, l.get("ty")), self.as_int(rv, r.get("ty"))
            if a is None or b is None:
                return None
            if op in ("+", "-", "*"):
                return self.fit(self.const({"+": a + b, "-": a - b, "*": a * b}[op]), e.get("ty"))
            if op in ("/", "%") and b != 0:
                q = abs(a) // abs(b) * (1 if (a >= 0) == (b >= 0) else -1)
                return self.fit(self.const(q if op == "/" else a - q * b), e.get("ty"))
            if op in ("<", "<=", ">", ">=", "==", "!="):
                return self.const(int({"<": a < b, "<=": a <= b, ">": a > b, ">=": a >= b, "==": a == b, "!=": a != b}[op]))
            return None
        if k == "CallExpr" and "callee" in e:
            name = e["callee"]["name"]
            args = [a for a in kids(e) if a is not None]
            if name in ("__builtin_bswap16", "__builtin_bswap32", "__builtin_bswap64") and len(args) == 1:
                n = int(name[len("__builtin_bswap"):])
                v = self.ev(args[0], env)
                if v is None:
                    return None
                out = [v[(n // 8 - 1 - i // 8) * 8 + i % 8] for i in range(n)] + [0] * (self.W - n)
                return self.fit(out, e.get("ty"))
            callee = self.tu.by_did.get(e["callee"].get("did"))
            if callee is None or callee.body is None or e.get("member_call") or len(args) != len(callee.params) or self.depth >= 4:
                return None
            env2 = {}
            for p, a in zip(callee.params, args):
                v = self.ev(a, env)
                if v is None:
                    return None
                env2[p["did"]] = self.fit(v, p.get("ty"))
            self.depth += 1
            try:
                return self.body(callee, env2)
            finally:
                self.depth -= 1
        return None

    def body(self, fn, env):
        """value returned by a function whose body is declarations, assignments to locals, concretely decided ifs and returns"""
        env = dict(env)
        r = self._run(kids(fn.body), env)
        return r[1] if r else None

    def _run(self, stmts, env):
        """('ret', v) on return; () when the statements fell through; ('bad', None) when not understood"""
        for s in stmts:
            if s is None or s["k"] == "NullStmt":
                continue
            k = s["k"]
            if k == "CompoundStmt":
                r = self._run(kids(s), env)
                if r:
                    return r
            elif k == "DeclStmt":
                for v in kids(s):
                    if v["k"] != "VarDecl":
                        continue
                    env[v["did"]] = self.fit(self.ev(kids(v)[0], env), v.get("ty")) if kids(v) else None
            elif k == "ReturnStmt":
                return ("ret", self.ev(kids(s)[0], env) if kids(s) else None)
            elif k == "IfStmt":
                c = self.as_int(self.ev(kids(s)[0], env))
                if c is None:
                    return ("bad", None)
                br = kids(s)[1] if c else (kids(s)[2] if len(kids(s)) > 2 else None)
                r = self._run([br], env)
                if r:
                    return r
            elif k in ("BinaryOperator", "CompoundAssignOperator") and s["op"].endswith("=") and s["op"] not in ("==", "!=", "<=", ">=") \
                    and strip_casts(kids(s)[0])["k"] == "DeclRefExpr":
                d = ref_of(kids(s)[0])
                if s["op"] == "=":
                    env[d] = self.fit(self.ev(kids(s)[1], env), kids(s)[0].get("ty"))
                else:
                    fake = dict(s)
                    fake["k"], fake["op"], fake["ty"] = "BinaryOperator", s["op"][:-1], s.get("cty") or s.get("ty")
                    env[d] = self.fit(self.ev(fake, env), kids(s)[0].get("ty"))
            else:
                return ("bad", None)
        return ()


def check_bits(ck, tu):
    def bswap(qn, w, label):
        fn = tu.one(qname=qn)
        bv = Bits(tu)
        x = bv.fit([("x", j) for j in range(bv.W)], "unsigned long" if w == 64 else "unsigned int" if w == 32 else "unsigned short")
        try:
            r = bv.body(fn, {fn.params[0]["did"]: x})
        except ShiftUB as su:
            return fn, ("ub", su.args[0])
        want = [("x", (w // 8 - 1 - i // 8) * 8 + i % 8) for i in range(w)]
        if r is None:
            raise dtable.Undecidable("%s: not a pure shift/mask expression" % fn.loc)
        if r[:w] != want:
            badbit = [i for i in range(w) if r[i] != want[i]][0]
            got = r[badbit]
            if isinstance(got, tuple) and got[0] == "or":
                got = "the disjunction of input bits %s" % sorted(j for _, j in got[1])
            return fn, ("bit", badbit, got, want[badbit][1])
        return fn, None

    def generic(w):
        fn, bad = bswap("tlx::bswap%d_generic" % w, w, "bswap%d" % w)
        if bad and bad[0] == "ub":
            ck.violation("BIT-PROVENANCE", fn.qname, "bswap%d:shift" % w, "shifts by %s, undefined for its operand" % bad[1], fn.loc)
        elif bad:
            ck.violation("BIT-PROVENANCE", fn.qname, "bswap%d" % w, "result bit %d comes from %s, a byte swap needs input bit %d" % bad[1:], fn.loc)
        else:
            ck.ok("BIT-PROVENANCE", fn.qname, "all %d result bits come from the byte-mirrored input bit" % w)
    for w in (16, 32, 64):
        ck.guarded(lambda w=w: generic(w))

    def rotate(name, left, w):
        fn = tu.one(qname="tlx::%s%d_generic" % (name, w))
        bad = None
        for i in list(range(0, w)) + [w, w + 3, -1, -5]:
            bv = Bits(tu)
            x = bv.fit([("x", j) for j in range(bv.W)], "unsigned long" if w == 64 else "unsigned int")
            try:
                r = bv.body(fn, {fn.params[0]["did"]: x, fn.params[1]["did"]: bv.fit(bv.const(i), "int")})
            except ShiftUB as su:
                ck.violation("BIT-PROVENANCE", fn.qname, "%s%d:shift" % (name, w), "rotation by %d shifts by %s, undefined for a %d-bit operand" % (i, su.args[0], w), fn.loc)
                return
            if r is None:
                raise dtable.Undecidable("%s: not a pure shift/mask expression (i=%d)" % (fn.loc, i))
            k = i % w
            want = [("x", (j - k) % w) for j in range(w)] if left else [("x", (j + k) % w) for j in range(w)]
            if r[:w] != want:
                bad = i
                break
        if bad is not None:
            ck.violation("BIT-PROVENANCE", fn.qname, "%s%d" % (name, w), "rotation by %d is wrong (bit provenance differs from a %d-bit rotate)" % (bad, w), fn.loc)
        else:
            ck.ok("BIT-PROVENANCE", fn.qname, "rotate %s correct for every amount 0..%d (and wrap-around amounts), all bits" % ("left" if left else "right", w - 1))
    for name, left in (("rol", True), ("ror", False)):
        for w in (32, 64):
            ck.guarded(lambda name=name, left=left, w=w: rotate(name, left, w))

    # intrinsic front ends use the intrinsic of their own width: decided by the provenance of the result bits, the intrinsic
    # __builtin_bswapN mirroring the low N bits of its operand
    def front(w):
        fn = tu.one(qname="tlx::bswap%d" % w)
        b = [x for x in fn.nodes() if "callee" in x and x["callee"]["name"].startswith("__builtin_bswap")]
        if len(b) == 1 and b[0]["callee"]["name"] == "__builtin_bswap%d" % w and ref_of(kids(b[0])[0]) == fn.params[0]["did"]:
            ck.ok("INTRINSIC-WIDTH", "bswap%d" % w, b[0]["callee"]["name"], nontrivial=False)
            return
        fn, bad = bswap("tlx::bswap%d" % w, w, "bswap%d" % w)
        if bad and bad[0] == "ub":
            ck.violation("INTRINSIC-WIDTH", fn.qname, "bswap%d" % w, "bswap%d shifts by %s, undefined for its operand" % (w, bad[1]), fn.loc)
        elif bad:
            ck.violation("INTRINSIC-WIDTH", fn.qname, "bswap%d" % w, "bswap%d does not use __builtin_bswap%d: result bit %d comes from %s, a byte swap needs input bit %d"
                         % ((w, w) + bad[1:]), fn.loc)
        else:
            ck.ok("INTRINSIC-WIDTH", "bswap%d" % w, "all %d result bits come from the byte-mirrored input bit" % w)
    for w in (16, 32, 64):
        ck.guarded(lambda w=w: front(w))


# ---------------------------------------------------------------- overflow before narrowing
def overflow_ref(q, vals, hi):
    """mathematical result on the natural domain (non-negative arguments, positive divisor); None outside / not representable"""
    if q == "tlx::round_down_to_power_of_two":
        i = vals[0]
        r = None if i < 0 else (0 if i == 0 else 1 << (i.bit_length() - 1))
    else:
        n, k = vals
        if n < 0 or k <= 0:
            return None
        r = -(-n // k)
        if q == "tlx::round_up":
            r *= k
    return r if r is not None and r <= hi else None


def overflow_grid(q, fn, hi):
    consts = set(c for c in (const_int(y) for y in fn.nodes() if y["k"] == "IntegerLiteral") if c is not None and 0 < c < 1024) | {1, 2}
    near = set()
    for c in consts:
        near |= {hi - c, hi - c + 1}
    big = sorted(v for v in near | {hi, hi - 1, (hi + 1) // 2, (hi + 1) // 2 + 1, (hi + 1) // 2 - 1} if 0 <= v <= hi)
    small = [0, 1, 2, 3, 4, 5, 7, 8, 9, 12, 16, 17, 1000]
    if q == "tlx::round_down_to_power_of_two":
        return [(v,) for v in small + big]
    ks = [1, 2, 3, 7, 8, hi - 1, hi]
    return [(n, k) for n in small + big for k in ks]


def check_overflow(ck, tu):
    """a total helper must not add to a full-range parameter before dividing / shifting / rounding down:
    n + k - 1 or i + 1 wraps for the upper part of the domain although the result is representable.
    Decided by evaluating the helper (callees included) with C++ integer semantics at the extremes of its type and on small
    values: a violation is an addition that wrapped / overflowed on a point whose mathematical result is representable, and
    a result that differs from it.  The syntactic form `param + positive` is only the suspicion."""
    def one(q, fn):
        pids = [p["did"] for p in fn.params]
        types = [ptype(fn, i) for i in range(len(fn.params))]
        tag = "%s(%s)" % (q.split("::")[-1], ",".join(types))
        suspects = []
        for x in fn.nodes():
            b = match.binop(x, ("+",))
            if not b or strip_casts(x)["k"] != "BinaryOperator":
                continue
            ops = [b[1], b[2]]
            raw = [o for o in ops if ref_of(o) in pids and strip_casts(o)["k"] == "DeclRefExpr"]
            if not raw:
                continue
            other = [o for o in ops if o is not raw[0]][0]
            if (const_int(other) or 0) > 0 or ref_of(other) in pids:
                suspects.append(x)
        evidence = None
        cannot = None
        points = 0
        if all(t in ITY for t in types) and len(set(types)) == 1:
            lo, hi = ITY[types[0]]
            try:
                for vals in overflow_grid(q, fn, hi):
                    want = overflow_ref(q, vals, hi)
                    if want is None:
                        continue
                    ret, sk = cxx_run(tu, fn, dict(zip(pids, vals)), builtin_event)
                    points += 1
                    adds = [x for x in sk.log if x[0] in ("overflow", "wrap") and x[2] in ("+", "++")]
                    ub = [x for x in sk.log if x[0] in ("overflow", "shift", "div0", "builtin0")]
                    if not numeric(ret) and not ub:
                        raise dtable.Undecidable("%s: %s%s cannot be evaluated on the integer skeleton" % (fn.loc, q.split("::")[-1], vals))
                    if adds and (ub or int(ret) != want):
                        got = ("undefined: " + ub_text(ub[0])) if ub else int(ret)
                        evidence = (adds[0][1], vals, got, want)
                        break
            except dtable.Undecidable as u:
                cannot = u
        else:
            cannot = dtable.Undecidable("%s: parameter types %s not modelled" % (fn.loc, types))
        if evidence is not None:
            wrapped, vals, got, want = evidence
            own = set(y["id"] for y in fn.nodes())
            bad = wrapped if wrapped["id"] in own or not suspects else suspects[0]
            ck.violation("NO-OVERFLOW-BEFORE-NARROW", fn.qname, tag.replace(" ", "_"),
                         "%s is computed on the raw argument before the result is narrowed: it wraps for arguments near the type's maximum although the "
                         "mathematical result is representable (for %s %s wraps and the helper yields %s, must be %s)"
                         % (dtable.describe(bad), ", ".join(str(v) for v in vals), dtable.describe(wrapped), got, want), fn.nloc(bad))
        elif cannot is not None and suspects:
            raise dtable.Undecidable("%s: %s adds to the raw argument and the helper cannot be evaluated to see whether it wraps (%s)"
                                     % (fn.nloc(suspects[0]), dtable.describe(suspects[0]), cannot))
        elif cannot is not None:
            ck.ok("NO-OVERFLOW-BEFORE-NARROW", tag, "no widening addition on the raw argument")
        else:
            ck.ok("NO-OVERFLOW-BEFORE-NARROW", tag, "no addition wraps or overflows on %d points incl. the type's maximum" % points)
    for q in ("tlx::div_ceil", "tlx::round_up", "tlx::round_down_to_power_of_two"):
        for fn in tu.some(qname=q):
            ck.guarded(lambda q=q, fn=fn: one(q, fn))


def check_bool_total(ck, tu):
    """BOOL-TOTAL: is_power_of_two_template is evaluated on its integer skeleton for the extreme and the small values of
    each instantiated type: the result is (i > 0 and i has one bit set) and no signed subtraction / addition leaves the
    type's range on the way (i - 1 for the minimum)"""
    def one(fn):
        t = ptype(fn)
        if t not in ITY:
            raise dtable.Undecidable("%s: integer type %s not modelled" % (fn.loc, t))
        lo, hi = ITY[t]
        bad = None
        vals = sorted(set([lo, lo + 1, -8, -2, -1, 0, 1, 2, 3, 4, 5, 6, 7, 8, 12, 16, 2 ** 30, hi - 1, hi, (hi + 1) // 2]))
        vals = [v for v in vals if lo <= v <= hi]
        for v in vals:
            ret, sk = cxx_run(tu, fn, {fn.params[0]["did"]: v}, builtin_event)
            over = [x for x in sk.log if x[0] == "overflow"]
            other_ub = [x for x in sk.log if x[0] in ("shift", "div0", "builtin0")]
            want = v > 0 and (v & (v - 1)) == 0
            if over:
                e = over[0][1]
                bad = ("overflow", "%s is evaluated for i = %d (%s): signed overflow for the minimum, for which the predicate must simply be false"
                       % (dtable.describe(e), v, t), e)
                break
            if other_ub:
                bad = ("form", "is_power_of_two(%d) [%s] is undefined: %s" % (v, t, ub_text(other_ub[0])), other_ub[0][1])
                break
            if not isinstance(ret, (int, bool)):
                raise dtable.Undecidable("%s: is_power_of_two(%d) [%s] cannot be evaluated on the integer skeleton" % (fn.loc, v, t))
            if bool(ret) != want:
                bad = ("form", "is_power_of_two(%d) [%s] yields %s, must be %s" % (v, t, bool(ret), want), fn.body)
                break
        if bad:
            ck.violation("BOOL-TOTAL", fn.qname, t.replace(" ", "_") + (":form" if bad[0] == "form" else ""), bad[1], fn.nloc(bad[2]))
        else:
            ck.ok("BOOL-TOTAL", "is_power_of_two_template<%s>" % t, "%d values incl. the type's minimum and maximum: result == (i > 0 and one bit set), no signed overflow on the way" % len(vals))
    for fn in tu.some(qname="tlx::is_power_of_two_template"):
        ck.guarded(lambda fn=fn: one(fn))


# ---------------------------------------------------------------- Aggregate
AG = "tlx::Aggregate"
FIELDS = ("count_", "mean_", "nvar_", "min_", "max_")
CTORS = ("CXXConstructExpr", "CXXTemporaryObjectExpr")


class AggVal:
    """an Aggregate held by value during an evaluation (a constructed temporary, a local object, a snapshot of *this)"""
    def __init__(self, fields):
        self.fields = dict(fields)


def agg_run(tu, f, this_state, other=None, other_did=None, args=None, depth=0):
    """evaluates the member function f of Aggregate exactly (counts and min/max are integers, mean and nvar rationals) on the
    object state `this_state`; the Aggregate argument (declaration other_did) has the state `other`.  Whole objects are
    values (AggVal): constructions, copies, `*this = ...`, member functions and operators called on *this / on a local
    object are followed; an object that escapes into anything else makes its fields unknown (None), never "unchanged".
    -> (return value, final fields, skeleton)"""
    pre = dict(this_state)
    if depth > 4:
        raise dtable.Undecidable("%s: Aggregate member calls nest too deep" % f.loc)

    def is_other(base, sk, maybe_ptr):
        """the expression names the Aggregate argument (directly, through a reference or through a pointer to it)"""
        if other_did is None:
            return False
        if ref_of(base) == other_did or sk.lvalue(base) == other_did:
            return True
        return bool(maybe_ptr) and ref_of(base) is not None and sk.load(sk.lvalue(base)) == ("ptr", other_did)

    def cur(sk):
        return {fld: sk.env.get(("field", fld)) for fld in FIELDS}

    def put(sk, fields):
        for fld in FIELDS:
            sk.store(("field", fld), (fields or {}).get(fld))

    def obj_fields(n, sk):
        """fields of the Aggregate an expression denotes, None if not known"""
        if is_this_object(n):
            return cur(sk)
        if is_other(n, sk, False):
            return dict(other) if other is not None else None
        v = sk.ev(n)
        return dict(v.fields) if isinstance(v, AggVal) else None

    def of_aggregate(c):
        return c.get("record") == AG or (c.get("qname") or "").startswith(AG + "::")

    def nested(e, sk, callee, obj, rest):
        """runs the member function `callee` on the object expression obj with the remaining arguments; writes the object back"""
        fields = obj_fields(obj, sk)
        local = sk.ev(obj) if not is_this_object(obj) and not is_other(obj, sk, False) else None
        sub = None
        if fields is not None and callee is not None and callee.body is not None and len(rest) == len(callee.params) and len(rest) <= 1:
            if not rest:
                sub = agg_run(tu, callee, fields, depth=depth + 1)
            elif "Aggregate" in (callee.params[0].get("ty") or ""):
                of = obj_fields(rest[0], sk)
                if of is not None:
                    sub = agg_run(tu, callee, fields, of, callee.params[0]["did"], depth=depth + 1)
            else:
                sub = agg_run(tu, callee, fields, args={callee.params[0]["did"]: sk.ev(rest[0])}, depth=depth + 1)
        if sub is None:
            # not followed: whatever the callee may write is unknown from here on
            if is_this_object(obj):
                put(sk, None)
            elif isinstance(local, AggVal):
                local.fields = {}
            return None
        ret, final, ssk = sub
        sk.log.extend(x for x in ssk.log if x[0] == "div0")
        if is_this_object(obj):
            put(sk, final)
        elif isinstance(local, AggVal):
            local.fields = dict(final)
        return ret

    def raw(e, sk):
        """sees every expression before any wrapper is looked through"""
        k = e["k"]
        if k in CTORS and of_aggregate(e.get("callee") or {}):
            if len(kids(e)) == 5:
                vals = [sk.ev(a_) for a_ in kids(e)]
                ctor = tu.by_did.get(e["callee"].get("did"))
                if ctor is None:
                    raise dtable.Undecidable("%s: Aggregate constructor not in the IR" % f.loc)
                made = {}
                for i_ in ctor.inits:
                    fld = i_.get("field") or i_.get("name")
                    d_ = ref_of(i_.get("e")) if i_.get("e") is not None else None
                    idx = ctor.param_index(d_) if d_ is not None else None
                    if fld and idx is not None:
                        made[fld] = vals[idx]
                return AggVal(made)
            if len(kids(e)) == 1:
                fields = obj_fields(kids(e)[0], sk)           # copy / move construction
                return AggVal(fields) if fields is not None else None
            return None
        if k == "UnaryOperator" and e.get("op") == "*" and is_this_object(e):
            return AggVal(cur(sk))                            # *this as a value: a snapshot
        if "callee" in e and k not in CTORS:
            c = e["callee"]
            a_ = kids(e)
            callee = tu.by_did.get(c.get("did"))
            if k == "CXXOperatorCallExpr" and e.get("op") == "=" and of_aggregate(c) and len(a_) == 2:
                fields = obj_fields(a_[1], sk)                # whole-object assignment
                if is_this_object(a_[0]):
                    put(sk, fields)
                    return AggVal(cur(sk))
                if ref_of(a_[0]) is not None and isinstance(sk.load(sk.lvalue(a_[0])), AggVal):
                    sk.store(sk.lvalue(a_[0]), AggVal(fields or {}))
                    return sk.load(sk.lvalue(a_[0]))
                return None
            member = bool(a_) and of_aggregate(c) and (e.get("member_call") or k == "CXXOperatorCallExpr")
            if member and is_this_object(a_[0]) and k != "CXXOperatorCallExpr" and callee is not None and callee.body is not None:
                return NotImplemented                         # a member function on *this: the skeleton inlines it
            if member and is_other(a_[0], sk, True):
                if len(a_) == 1 and callee is not None and callee.body is not None and not callee.params and other is not None:
                    return agg_run(tu, callee, other, depth=depth + 1)[0]     # an argument-free accessor called on the argument
                return None
            if member and (is_this_object(a_[0]) or isinstance(sk.ev(a_[0]), AggVal)):
                return nested(e, sk, callee, a_[0], a_[1:])
            # any other call that receives this object: its fields are unknown afterwards
            if any(is_this_object(x) for x in a_ if x is not None):
                put(sk, None)
                return None
        return NotImplemented

    def event(e, sk):
        if e["k"] == "MemberExpr" and kids(e):
            fld = this_field(e)
            if fld:
                key = ("field", fld)
                if key in sk.written and fld in pre and sk.env.get(key) != pre[fld]:
                    sk.log.append(("dirty", sk.cur, fld, None, None, None))
                return NotImplemented
            if is_other(kids(e)[0], sk, e.get("arrow")):
                return (other or {}).get(e["member"])
            v = sk.ev(kids(e)[0]) if ref_of(kids(e)[0]) is not None else None
            if isinstance(v, AggVal):
                return v.fields.get(e["member"])              # field of a local object
        return NotImplemented
    env = {("field", k_): v_ for k_, v_ in this_state.items()}
    env.update(args or {})
    ret, sk = cxx_run(tu, f, env, event, raw)
    final = {k_[1]: v_ for k_, v_ in sk.env.items() if isinstance(k_, tuple) and len(k_) == 2 and k_[0] == "field"}
    return ret, final, sk


def check_aggregate_T(ck, tu, T):
    fns = {f.name: f for f in tu.find(record=AG) if f.rtargs == [T]}
    ck.require({"operator+", "operator+=", "combine_means", "combine_variance", "add"} <= set(fns), "Aggregate<%s> members not instantiated" % T)
    # sample states: (count, mean, nvar, min, max) of *this and of the argument
    states = [(dict(count_=3, mean_=Fraction(7, 2), nvar_=Fraction(5), min_=2, max_=9), dict(count_=5, mean_=Fraction(-2), nvar_=Fraction(11, 3), min_=5, max_=7)),
              (dict(count_=3, mean_=Fraction(1, 3), nvar_=Fraction(2), min_=6, max_=8), dict(count_=4, mean_=Fraction(9), nvar_=Fraction(7), min_=1, max_=20))]

    def helper(name, mine, theirs):
        h = fns[name]
        ret, _, sk = agg_run(tu, h, mine, theirs, h.params[0]["did"])
        if not numeric(ret):
            raise dtable.Undecidable("%s: %s cannot be evaluated on a sample state" % (h.loc, name))
        return ret

    def wanted(mine, theirs):
        return {"count_": mine["count_"] + theirs["count_"], "min_": min(mine["min_"], theirs["min_"]), "max_": max(mine["max_"], theirs["max_"]),
                "mean_": helper("combine_means", mine, theirs), "nvar_": helper("combine_variance", mine, theirs)}

    # ---- pre-state purity of operator+=: evaluated on a sample state; a field that is read after it was overwritten with
    # another value AND a combined quantity that differs from the one computed on the pre-state
    def purity():
        fn = fns["operator+="]
        mine, theirs = states[0]
        _, final, sk = agg_run(tu, fn, mine, theirs, fn.params[0]["did"])
        want = wanted(mine, theirs)
        dirty = [x for x in sk.log if x[0] == "dirty"]
        undecided = [k_ for k_ in want if not numeric(final.get(k_))]
        wrong = [k_ for k_ in want if numeric(final.get(k_)) and final[k_] != want[k_]]
        if dirty and wrong:
            s, flds = dirty[0][1], sorted(set(x[2] for x in dirty if x[1] is dirty[0][1]))
            ck.violation("PRESTATE-PURITY", fn.qname, "%s:%s" % (T, ",".join(flds)),
                         "operator+= computes %s from %s after it was already overwritten: the combined value mixes the old and the new state "
                         "(on a sample state %s becomes %s instead of %s)"
                         % (dtable.describe(s)[:60], flds, wrong[0], final[wrong[0]], want[wrong[0]]), fn.nloc(s) if s is not None else fn.loc)
        elif dirty and undecided:
            raise dtable.Undecidable("%s: operator+= reads %s after overwriting it and %s cannot be evaluated" % (fn.loc, dirty[0][2], undecided[0]))
        else:
            ck.ok("PRESTATE-PURITY", "Aggregate<%s>::operator+=" % T, "every combined quantity is computed from the pre-state")
    ck.guarded(purity)

    # ---- operator+ and operator+= each combine the five quantities: evaluated on two sample states
    def combines(opname):
        f = fns[opname]
        for mine, theirs in states:
            ret, final, sk = agg_run(tu, f, mine, theirs, f.params[0]["did"])
            result = final if opname == "operator+=" else (ret.fields if isinstance(ret, AggVal) else {})
            want = wanted(mine, theirs)
            undecided = [k_ for k_ in want if not numeric(result.get(k_))]
            wrong = [k_ for k_ in want if numeric(result.get(k_)) and result[k_] != want[k_]]
            if wrong:
                k_ = wrong[0]
                ck.violation("PLUS-COMBINES", f.qname, "%s:%s" % (T, k_),
                             "%s of (count %d, min %d, max %d) and (count %d, min %d, max %d) leaves %s = %s; it must be %s (count added, mean and variance "
                             "through combine_means / combine_variance of the argument on the pre-state, min and max of both)"
                             % (opname, mine["count_"], mine["min_"], mine["max_"], theirs["count_"], theirs["min_"], theirs["max_"], k_, result.get(k_), want[k_]), f.loc)
                return
            if undecided:
                raise dtable.Undecidable("%s: %s: the resulting %s cannot be evaluated on a sample state" % (f.loc, opname, undecided[0]))
        ck.ok("PLUS-COMBINES", "Aggregate<%s>::%s" % (T, opname), "count, mean, variance, min, max combined from the pre-state on two sample states")
    for opname in ("operator+", "operator+="):
        ck.guarded(lambda opname=opname: combines(opname))

    # ---- formulas of the helpers, exactly, on sample points
    pts = [(3, Fraction(7, 2), Fraction(5), 5, Fraction(-2), Fraction(11, 3)), (1, Fraction(2), Fraction(0), 4, Fraction(9), Fraction(7)),
           (10, Fraction(1, 3), Fraction(2), 1, Fraction(100), Fraction(0)), (2, Fraction(5), Fraction(1), 2, Fraction(5), Fraction(3))]

    def formula(name):
        f = fns[name]
        for (n1, m1, v1, n2, m2, v2) in pts:
            mine = dict(count_=n1, mean_=m1, nvar_=v1, min_=0, max_=0)
            theirs = dict(count_=n2, mean_=m2, nvar_=v2, min_=0, max_=0)
            got, _, sk = agg_run(tu, f, mine, theirs, f.params[0]["did"])
            if name == "combine_means":
                want = (m1 * n1 + m2 * n2) / (n1 + n2)
            else:
                d = m1 - m2
                want = v1 + v2 + d * d * n1 * n2 / (n1 + n2)
            if not numeric(got):
                raise dtable.Undecidable("%s: return expression is not plain arithmetic" % f.loc)
            if got != want:
                ck.violation("COMBINE-FORMULA", f.qname, "%s:%s" % (T, name),
                             "%s is not the pooled %s: for counts (%d,%d), means (%s,%s) it yields %s instead of %s"
                             % (name, "mean" if name == "combine_means" else "sum of squared deviations", n1, n2, m1, m2, got, want), f.loc)
                return
        ck.ok("COMBINE-FORMULA", "Aggregate<%s>::%s" % (T, name), "equals the pooled formula exactly on %d rational sample points (identity test)" % len(pts))
    for name in ("combine_means", "combine_variance"):
        ck.guarded(lambda name=name: formula(name))

    # ---- zero guards of the shared denominator: the helpers are evaluated with one and with two empty operands
    def divguard(name):
        f = fns[name]
        empty = dict(count_=0, mean_=Fraction(0), nvar_=Fraction(0), min_=10 ** 9, max_=-10 ** 9)
        full = dict(count_=4, mean_=Fraction(5, 2), nvar_=Fraction(3), min_=1, max_=6)
        for mine, theirs, what in ((empty, empty, "two empty aggregates"), (empty, full, "an empty aggregate and a filled argument"),
                                   (full, empty, "a filled aggregate and an empty argument")):
            got, _, sk = agg_run(tu, f, dict(mine), dict(theirs), f.params[0]["did"])
            div0 = [x for x in sk.log if x[0] == "div0"]
            if div0:
                d = div0[0][1]
                ck.violation("DIV-GUARD", f.qname, "%s:%s" % (T, name), "division by count_ + other.count_ without excluding two empty aggregates (0/0 -> NaN): "
                             "%s divides by zero for %s" % (dtable.describe(d)[:70], what), f.nloc(d))
                return
            if not numeric(got):
                raise dtable.Undecidable("%s: %s cannot be evaluated for %s" % (f.loc, name, what))
        ck.ok("DIV-GUARD", "Aggregate<%s>::%s" % (T, name), "count_ + other.count_ cannot be zero at the division (evaluated with one and with two empty operands)")
    for name in ("combine_means", "combine_variance"):
        ck.guarded(lambda name=name: divguard(name))

    # ---- add(): count incremented before it divides: add(value) evaluated on the empty aggregate
    def addorder():
        f = fns["add"]
        empty = dict(count_=0, mean_=Fraction(0), nvar_=Fraction(0), min_=10 ** 9, max_=-10 ** 9)
        try:
            _, final, sk = agg_run(tu, f, empty, args={f.params[0]["did"]: 5})
        except dtable.Undecidable as u:
            raise dtable.Undecidable("%s: add() cannot be evaluated on the empty aggregate (%s)" % (f.loc, u))
        div0 = [x for x in sk.log if x[0] == "div0"]
        if div0:
            ck.violation("ADD-ORDER", f.qname, T, "the running mean divides by count_ before it was incremented (division by zero for the first value): %s"
                         % dtable.describe(div0[0][1])[:70], f.nloc(div0[0][1]))
        elif final.get("count_") != 1 or not numeric(final.get("mean_")):
            raise dtable.Undecidable("%s: add() on the empty aggregate leaves count_ = %s, mean_ = %s: not understood"
                                     % (f.loc, final.get("count_"), final.get("mean_")))
        else:
            ck.ok("ADD-ORDER", "Aggregate<%s>::add" % T, "count_ is incremented before the running mean divides by it")
    ck.guarded(addorder)


def check_aggregate(ck, tu):
    for T in ("double", "int"):
        ck.guarded(lambda T=T: check_aggregate_T(ck, tu, T))


def run(ck):
    ck.explanation = (
        "Structural rules over all overloads: every family is defined for the six integer types; each compiler intrinsic has the operand width of its "
        "parameter type, clz/ctz intrinsics are dominated by a zero test, signed overloads forward to the same-width unsigned one. The portable bswap and "
        "rotate fall-backs are decided completely by symbolic bit provenance (every result bit traced to its input bit, for every rotation amount). Total "
        "helpers must not add to the raw argument before narrowing (div_ceil, round_up, round_down_to_power_of_two) and the power-of-two predicate must "
        "reject non-positive values before i & (i-1). Aggregate: operator+= computes every quantity from the pre-state, + and += use the same helpers, the "
        "helpers equal the pooled mean / sum-of-squares formulas exactly (rational identity test on the extracted expressions), the shared denominator is "
        "guarded against two empty operands. A violation is only reported with a concrete counterexample of an evaluation with C++ value semantics; an "
        "unusual form that cannot be evaluated is 'cannot decide'. Not decided: the loop-based templates (clz/ctz/ffs/log2), popcount SWAR arithmetic, "
        "floating-point rounding.")
    tu = ir.extract("witness/C20_math.cpp")
    check_families(ck, tu)
    check_bits(ck, tu)
    check_overflow(ck, tu)
    check_bool_total(ck, tu)
    check_aggregate(ck, tu)
    ck.floor("FAMILY-COMPLETE", 9)
    ck.floor("INTRINSIC-WIDTH", 20)
    ck.floor("INTRINSIC-GUARD", 6)
    ck.floor("SIGNED-FORWARD", 9)
    ck.floor("BIT-PROVENANCE", 7)
    ck.floor("NO-OVERFLOW-BEFORE-NARROW", 18)
    ck.floor("BOOL-TOTAL", 6)
    ck.floor("PRESTATE-PURITY", 2)
    ck.floor("PLUS-COMBINES", 4)
    ck.floor("COMBINE-FORMULA", 4)
    ck.floor("DIV-GUARD", 4)
