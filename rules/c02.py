"""C02 — B+ tree structure invariants and exact allocation: the clauses visible in the shape of the code.
Who may allocate and free nodes and how the counters pair with it; freeing an unlinked node before its
slot is overwritten; root collapse; clear()/destructor/assignment order (nodes are released through the
allocator that produced them); swap completeness; leaf chain splices on a finite alias model; size
accounting; separator maintenance when the last entry of a leaf is removed; legality of every underflow
resolution; capacity predicates; no dropped rebalancing result."""
from engine import ir, dtable, match, cfg as cfgm
from engine.ir import kids, walk, strip_casts, const_int, ref_of
from rules import btcommon as B
from rules import btprim

BT = B.BT


def node_kind(ty):
    ty = (ty or "").replace("const ", "").strip()
    while ty.endswith("*") or ty.endswith("&") or ty.endswith(" "):
        ty = ty[:-1]
    if ty.startswith("std::allocator<") and ty.endswith(">"):
        ty = ty[len("std::allocator<"):-1].strip()
    if ty.endswith("::LeafNode"):
        return "leaf"
    if ty.endswith("::InnerNode"):
        return "inner"
    return None


def stats_field(e):
    """'leaves' for this->stats_.leaves"""
    f = match.field_of(e)
    if f and match.this_field(f[0]) == "stats_":
        return f[1]
    return None


# ------------------------------------------------------------------ who may allocate / free
def check_alloc_owner(ck, tree):
    allocs, frees, counter_writes = [], [], []
    for fn in tree.fns:
        if fn.body is None:
            continue
        for z in fn.nodes():
            if z["k"] == "CXXNewExpr" and node_kind(z.get("alloc_ty")):
                allocs.append((fn, z, "new " + node_kind(z.get("alloc_ty"))))
            if z["k"] == "CXXDeleteExpr":
                t = kids(z)[0].get("ty") if kids(z) else ""
                if node_kind(t):
                    frees.append((fn, z, "delete"))
            if "callee" in z:
                nm, rec = z["callee"]["name"], z["callee"].get("record") or ""
                if nm == "allocate" and "allocator" in rec:
                    allocs.append((fn, z, "allocate"))
                if nm in ("deallocate", "destroy") and "allocator" in rec:
                    frees.append((fn, z, nm))
            u = match.unop(z, ("++", "--")) if z["k"] == "UnaryOperator" else None
            if u and stats_field(u[1]) in ("leaves", "inner_nodes"):
                counter_writes.append((fn, z, u[0], stats_field(u[1])))
            b = match.binop(z, ("=", "+=", "-=")) if z["k"] in ("BinaryOperator", "CompoundAssignOperator") else None
            if b and stats_field(b[1]) in ("leaves", "inner_nodes"):
                rhs = strip_casts(b[2])
                chained = match.binop(rhs, ("=",))
                zero = const_int(rhs) == 0 or (chained is not None and const_int(chained[2]) == 0)
                if not (b[0] == "=" and zero):
                    counter_writes.append((fn, z, b[0], stats_field(b[1])))
    for fn, z, what in allocs:
        if fn.name not in ("allocate_leaf", "allocate_inner"):
            ck.violation("NODE-ALLOC-OWNER", fn.qname, "alloc:" + what, "nodes are obtained outside allocate_leaf/allocate_inner (%s): "
                         "the node counters and the allocator pairing are bypassed" % what, fn.nloc(z))
    for fn, z, what in frees:
        if fn.name != "free_node":
            ck.violation("NODE-ALLOC-OWNER", fn.qname, "free:" + what, "nodes are released outside free_node (%s)" % what, fn.nloc(z))
    for fn, z, op, fld in counter_writes:
        if fn.name not in ("allocate_leaf", "allocate_inner", "free_node"):
            ck.violation("NODE-ALLOC-OWNER", fn.qname, "counter:" + fld, "stats_.%s is modified (%s) outside the allocation functions" % (fld, op),
                         fn.nloc(z))
    # the two allocation functions
    for name, kind, fld, factory in (("allocate_leaf", "leaf", "leaves", "leaf_node_allocator"),
                                     ("allocate_inner", "inner", "inner_nodes", "inner_node_allocator")):
        fn = tree.one(name)
        news = [z for z in fn.nodes() if z["k"] == "CXXNewExpr"]
        al = [z for z in fn.nodes() if "callee" in z and z["callee"]["name"] == "allocate"]
        fac = [z for z in fn.nodes() if "callee" in z and z["callee"]["name"] in ("leaf_node_allocator", "inner_node_allocator")]
        cnt = [(op, f) for f2, z, op, f in counter_writes if f2 is fn]
        init = [z for z in fn.nodes() if "callee" in z and z["callee"]["name"] == "initialize"]
        problems = []
        if len(news) != 1 or node_kind(news[0].get("alloc_ty")) != kind or not news[0].get("placement"):
            problems.append("must construct exactly one %s node in place" % kind)
        if len(al) != 1 or const_int(kids(al[0])[1]) != 1:
            problems.append("must allocate(1) exactly once")
        if [z["callee"]["name"] for z in fac] != [factory]:
            problems.append("storage must come from %s()" % factory)
        if cnt != [("++", fld)]:
            problems.append("must count the node in stats_.%s exactly once (found %s)" % (fld, cnt))
        if len(init) != 1:
            problems.append("must initialize() the node")
        if problems:
            ck.violation("NODE-ALLOC-OWNER", fn.qname, name, "; ".join(problems), fn.loc)
        else:
            ck.ok("NODE-ALLOC-OWNER", tree.where(fn), "placement-new %s node on %s().allocate(1), ++stats_.%s, initialize()" % (kind, factory, fld))
    for name, kind in (("leaf_node_allocator", "leaf"), ("inner_node_allocator", "inner")):
        fn = tree.one(name)
        r = B.single_return(fn)
        uses = [z for z in walk(r) if match.this_field(z) == "allocator_"]
        rk = node_kind(strip_casts(r).get("ty")) or node_kind(r.get("ty"))
        if not uses or rk != kind:
            ck.violation("NODE-ALLOC-OWNER", fn.qname, name, "%s() must rebind this->allocator_ to the %s node type; returns %s"
                         % (name, kind, dtable.describe(r)), fn.loc)
        else:
            ck.ok("NODE-ALLOC-OWNER", tree.where(fn), "rebinds allocator_ to the %s node" % kind)
    # free_node: per branch the node type, allocator type and counter agree
    fn = tree.one("free_node")

    def atomize(n, run):
        n = strip_casts(n)
        if "callee" in n and n["callee"]["name"] == "is_leafnode":
            return "leaf", False
        return None
    leaves = dtable.explore(fn.body, atomize, fn)
    for v, lf in dtable.table(leaves, None, ["leaf"]):
        kind = "leaf" if v["leaf"] else "inner"
        seq = []
        env = lf["run"].env
        for ev in lf["events"]:
            if ev[0] != "expr":
                continue
            e = strip_casts(ev[1])
            if "callee" in e and e["callee"]["name"] in ("destroy", "deallocate"):
                args = kids(e)
                at = node_kind(strip_casts(args[0]).get("ty"))
                pt = node_kind(strip_casts(args[1]).get("ty"))
                src = None
                d = ref_of(args[0])
                if d in env and isinstance(env[d], dict):
                    fac = [z["callee"]["name"] for z in walk(env[d]) if "callee" in z and z["callee"]["name"].endswith("_node_allocator")]
                    src = fac[0] if fac else None
                seq.append((e["callee"]["name"], at, pt, src))
            u = match.unop(e, ("--", "++"))
            if u and stats_field(u[1]):
                seq.append((u[0], stats_field(u[1])))
        fld = "leaves" if kind == "leaf" else "inner_nodes"
        fac = kind + "_node_allocator"
        want = [("destroy", kind, kind, fac), ("deallocate", kind, kind, fac), ("--", fld)]
        core = [x for x in seq if x[0] in ("destroy", "deallocate")] + [x for x in seq if x[0] in ("--", "++")]
        if core != want or [x[0] for x in seq if x[0] in ("destroy", "deallocate")] != ["destroy", "deallocate"]:
            ck.violation("NODE-ALLOC-OWNER", fn.qname, "free_node:" + kind,
                         "releasing a %s node must destroy and deallocate it as a %s node through %s() and decrement stats_.%s; found %s"
                         % (kind, kind, fac, fld, seq), fn.loc)
        else:
            ck.ok("NODE-ALLOC-OWNER", tree.where(fn, kind), "destroy + deallocate(%s node, %s()) then --stats_.%s" % (kind, fac, fld))
    # a fresh leaf has null links (the alias model of LEAFCHAIN-SPLICE relies on it)
    fn = tree.one("initialize", BT + "::LeafNode")
    sh = B.Shape(fn, tree=tree)
    st = B.ShapeState()
    outs = sh.run(kids(fn.body), st)
    good = all(s.heap.get(("this", "next_leaf")) == "NULL" and s.heap.get(("this", "prev_leaf")) == "NULL" for s in init_states(fn))
    if not good:
        ck.violation("NODE-ALLOC-OWNER", fn.qname, "INIT-NULL", "LeafNode::initialize() must null both chain links", fn.loc)
    else:
        ck.ok("NODE-ALLOC-OWNER", tree.where(fn), "fresh leaf: prev_leaf = next_leaf = nullptr")


def init_states(fn):
    """LeafNode::initialize(): the links are members of *this"""
    res = {}
    for z in fn.nodes():
        b = match.binop(z, ("=",)) if z["k"] == "BinaryOperator" else None
        if not b:
            continue
        chain = [b[1]]
        rhs = strip_casts(b[2])
        while True:
            bb = match.binop(rhs, ("=",))
            if not bb:
                break
            chain.append(bb[1])
            rhs = strip_casts(bb[2])
        if B.is_null(rhs):
            for l in chain:
                m = match.this_field(l)
                if m:
                    res[m] = "NULL"
    st = B.ShapeState()
    st.heap[("this", "next_leaf")] = res.get("next_leaf")
    st.heap[("this", "prev_leaf")] = res.get("prev_leaf")
    return [st]


# ------------------------------------------------------------------ unlink => free before the slot is reused
def tree_fn_by_did(tree, did):
    for f in tree.fns:
        if f.did == did:
            return f
    return None


def check_free_on_unlink(ck, tree):
    for name in ("erase_one_descend", "erase_iter_descend"):
        fn = tree.one(name)
        g = cfgm.CFG(fn)
        regions = [n for n in walk(fn.body) if n["k"] == "IfStmt" and any(
            z["k"] == "DeclRefExpr" and z["ref"]["name"] == "btree_fixmerge" for z in walk(kids(n)[0]))]
        if len(regions) != 1:
            raise ir.AnalysisBroken("%s: fix-merge region not found" % fn.full)
        reg = kids(regions[0])[1]
        host, g_host = fn, g
        frees = [z for z in walk(reg) if "callee" in z and z["callee"]["name"] == "free_node"]
        if not frees:
            # the repair may have been moved into a private helper called from the region
            for z in walk(reg):
                if "callee" in z and z.get("member_call") and strip_casts(kids(z)[0])["k"] == "This" and z["callee"]["name"] != name:
                    cal = tree_fn_by_did(tree, z["callee"]["did"])
                    if cal is not None and any("callee" in q and q["callee"]["name"] == "free_node" for q in cal.nodes()):
                        host, g_host, reg = cal, cfgm.CFG(cal), cal.body
                        frees = [q for q in walk(reg) if "callee" in q and q["callee"]["name"] == "free_node"]
                        break
        g = g_host
        fn_host = host
        copies = []
        for z in walk(reg):
            if "callee" in z and z["callee"]["name"] in ("copy", "copy_backward", "move") and len(kids(z)) >= 3:
                dst = kids(z)[2]
                if any(x["k"] == "MemberExpr" and x.get("member") == "childid" for x in walk(dst)):
                    copies.append(z)
        decs = [z for z in walk(reg) if z["k"] in ("UnaryOperator", "CompoundAssignOperator") and z.get("op") in ("--", "-=") and
                match.field_of(kids(z)[0]) and match.field_of(kids(z)[0])[1] == "slotuse"]
        sig = name + ":fixmerge"
        if len(frees) != 1:
            ck.violation("FREE-ON-UNLINK", fn.qname, sig, "the emptied child is unlinked from its parent but free_node() is called %d times"
                         % len(frees), fn.nloc(regions[0]))
            continue
        arg = match.index_parts(kids(frees[0])[1])
        is_child = arg is not None and match.field_of(arg[0]) and match.field_of(arg[0])[1] == "childid"
        if not is_child:
            ck.violation("FREE-ON-UNLINK", fn.qname, sig, "free_node(%s) does not release the unlinked child" % dtable.describe(kids(frees[0])[1]),
                         fn_host.nloc(frees[0]))
            continue
        if not copies or not decs:
            ck.violation("FREE-ON-UNLINK", fn.qname, sig, "the freed child stays referenced: childid[] is not closed up / slotuse not decremented",
                         fn.nloc(regions[0]))
            continue
        pf = g.pos_deep(frees[0])
        bad = [c for c in copies if not g.dominates(pf, g.pos_deep(c))]
        if bad:
            ck.violation("FREE-ON-UNLINK", fn.qname, sig, "childid[slot] is overwritten before the node it points to was freed (leak, and the "
                         "wrong node is freed afterwards)", fn_host.nloc(bad[0]))
            continue
        # the emptied node chosen: the test on slotuse precedes
        ck.ok("FREE-ON-UNLINK", tree.where(fn), "free_node(childid[slot]) dominates the copy that closes the gap; slotuse decremented")
        # root collapse paths (both neighbours null)
        roles = B.Roles(fn)
        for region in B.find_underflow_ifs(fn):
            then = kids(region)[1]
            first = [s for s in kids(then) if s["k"] == "IfStmt"][0]
            leaves = dtable.explore(first, B.underflow_atomize(roles), fn)
            rec = [z for z in walk(kids(region)[0]) if "callee" in z and z["callee"]["name"] == "is_underflow"][0]
            kind = "leaf" if "LeafNode" in rec["callee"]["record"] else "inner"
            found = False
            for lf in leaves:
                v = lf["val"]
                if not (v.get(("null", B.P_LEFT)) and v.get(("null", B.P_RIGHT))):
                    continue
                found = True
                sh = B.Shape(fn, tree=tree)
                st = B.ShapeState()
                for i, p in enumerate(fn.params):
                    if i in (B.P_CURR,):
                        st.env[p["did"]] = "curr"
                        st.null["curr"] = False
                # locals that alias curr
                for did, init in roles.inits.items():
                    if roles.param_of(init) == B.P_CURR:
                        st.env[did] = "curr"
                st.tf["root_"] = "curr"
                seq = []
                freed = []
                for ev in lf["events"]:
                    if ev[0] != "expr":
                        continue
                    e = ev[1]
                    fr = [z for z in walk(e) if "callee" in z and z["callee"]["name"] == "free_node"]
                    if fr:
                        freed.append(sh.ev(kids(fr[0])[1], st))
                        seq.append("free")
                        continue
                    before = dict(st.tf)
                    sh.ev(e, st)
                    if st.tf != before:
                        seq.append("owner")
                stop = lf["stop"][0]
                sig2 = "%s:root-%s" % (name, kind)
                if freed != ["curr"]:
                    ck.violation("ROOT-COLLAPSE", fn.qname, sig2, "the %s root that ran empty must be freed exactly once (freed: %s)"
                                 % (kind, freed), fn.nloc(first))
                elif stop != "return":
                    ck.violation("ROOT-COLLAPSE", fn.qname, sig2, "execution continues with the freed root", fn.nloc(first))
                elif kind == "leaf" and not (st.tf.get("root_") == "NULL" and st.tf.get("head_leaf_") == "NULL" and st.tf.get("tail_leaf_") == "NULL"):
                    ck.violation("ROOT-COLLAPSE", fn.qname, sig2, "after freeing the last leaf root_/head_leaf_/tail_leaf_ must all be null; "
                                 "root_=%s head_leaf_=%s tail_leaf_=%s" % (st.tf.get("root_"), st.tf.get("head_leaf_"), st.tf.get("tail_leaf_")),
                                 fn.nloc(first))
                elif kind == "inner" and (st.tf.get("root_") in ("curr", "NULL") or not root_is_child0(lf, roles)):
                    ck.violation("ROOT-COLLAPSE", fn.qname, sig2, "the only child must become the root before the old root is freed",
                                 fn.nloc(first))
                else:
                    ck.ok("ROOT-COLLAPSE", tree.where(fn, kind), "freed once, owners redirected, returns")
            if not found:
                raise ir.AnalysisBroken("%s: no path for the root case in the %s region" % (fn.full, kind))


def root_is_child0(lf, roles):
    for ev in lf["events"]:
        if ev[0] != "expr":
            continue
        b = match.binop(ev[1], ("=",))
        if b and match.this_field(b[1]) == "root_":
            ip = match.index_parts(b[2])
            if ip and match.field_of(ip[0]) and match.field_of(ip[0])[1] == "childid" and const_int(ip[1]) == 0 and \
                    roles.param_of(match.field_of(ip[0])[0]) == B.P_CURR:
                return True
    return False


# ------------------------------------------------------------------ clear / destructor / assignment
def this_calls(fn, name):
    return [z for z in fn.nodes() if "callee" in z and z["callee"]["name"] == name and z.get("member_call") and
            strip_casts(kids(z)[0])["k"] == "This"]


def check_clear(ck, tree):
    fn = tree.one("clear")

    def atomize(n, run):
        pt = match.ptr_truth(n)
        if pt is not None and match.this_field(pt) == "root_":
            return "root", False
        b = match.binop(n, ("!=", "=="))
        if b and match.this_field(b[1]) == "root_" and B.is_null(b[2]):
            return "root", b[0] == "=="
        return None
    leaves = dtable.explore(fn.body, atomize, fn)
    for v, lf in dtable.table(leaves, None, ["root"]):
        seq = []
        for ev in lf["events"]:
            if ev[0] != "expr":
                continue
            e = strip_casts(ev[1])
            if "callee" in e and e["callee"]["name"] in ("clear_recursive", "free_node"):
                a = kids(e)[1]
                seq.append((e["callee"]["name"], match.this_field(a)))
                continue
            # chained assignments
            cur = e
            while True:
                b = match.binop(cur, ("=",))
                if not b:
                    break
                tf = match.this_field(b[1])
                rhs = strip_casts(b[2])
                final = rhs
                while match.binop(final, ("=",)):
                    final = strip_casts(match.binop(final, ("=",))[2])
                if tf in B.OWNERS:
                    seq.append(("null" if B.is_null(final) else "set", tf))
                elif tf == "stats_":
                    seq.append(("reset", "stats_"))
                cur = rhs
        if not v["root"]:
            if any(x[0] in ("clear_recursive", "free_node") for x in seq):
                ck.violation("CLEAR-RESET", fn.qname, "empty", "clear() of an empty tree touches nodes: %s" % seq, fn.loc)
            else:
                ck.ok("CLEAR-RESET", tree.where(fn, "empty"), "nothing to release")
            continue
        names = [x for x in seq]
        need = [("clear_recursive", "root_"), ("free_node", "root_"), ("null", "root_"), ("null", "head_leaf_"), ("null", "tail_leaf_"),
                ("reset", "stats_")]
        missing = [x for x in need if x not in names]
        order_ok = not missing and names.index(need[0]) < names.index(need[1]) < names.index(need[2])
        if missing or not order_ok:
            ck.violation("CLEAR-RESET", fn.qname, "nonempty", "clear() must release the children, then the root, then null root_/head_leaf_/"
                         "tail_leaf_ and reset stats_; %s" % ("missing %s" % missing if missing else "order is %s" % names), fn.loc)
        else:
            ck.ok("CLEAR-RESET", tree.where(fn, "nonempty"), "clear_recursive(root_), free_node(root_), owners nulled, stats_ reset")
    # destructor
    dt = [f for f in tree.fns if f.kind == "dtor" and f.record == BT]
    if not dt:
        raise ir.AnalysisBroken("~BTree not instantiated")
    if not this_calls(dt[0], "clear"):
        ck.violation("CLEAR-RESET", dt[0].qname, "dtor", "the destructor does not release the nodes (no clear())", dt[0].loc)
    else:
        ck.ok("CLEAR-RESET", tree.where(dt[0]), "calls clear()")
    # clear_recursive and copy_recursive visit all slotuse + 1 children
    for name in ("clear_recursive", "copy_recursive"):
        fn = tree.one(name)
        loops = [l for l in match.loops_in(fn.body) if l["k"] == "ForStmt" and any(
            x["k"] == "MemberExpr" and x.get("member") == "childid" for x in walk(l))]
        if len(loops) != 1:
            raise ir.AnalysisBroken("%s: child loop not found" % fn.full)
        init, cond, inc, body = match.loop_parts(loops[0])
        var = [x for x in walk(init) if x["k"] == "VarDecl"]
        start = const_int(kids(var[0])[0]) if var and kids(var[0]) else None
        b = match.binop(cond, ("<", "<="))
        ok = False
        if b and var and ref_of(b[1]) == var[0]["did"] and start == 0:
            rhs = strip_casts(b[2])
            f = match.field_of(rhs)
            if b[0] == "<=" and f and f[1] == "slotuse":
                ok = True
            pl = match.binop(rhs, ("+",))
            if b[0] == "<" and pl and match.field_of(pl[1]) and match.field_of(pl[1])[1] == "slotuse" and const_int(pl[2]) == 1:
                ok = True
        idx_ok = all(ref_of(match.index_parts(x)[1]) == var[0]["did"] for x in walk(body)
                     if x["k"] == "ArraySubscriptExpr" and match.field_of(match.index_parts(x)[0]) and
                     match.field_of(match.index_parts(x)[0])[1] == "childid") if var else False
        if not ok or not idx_ok:
            ck.violation("CHILD-RANGE", fn.qname, name, "an inner node with slotuse separators has slotuse + 1 children; the loop covers %s"
                         % dtable.describe(cond), fn.nloc(loops[0]))
        else:
            ck.ok("CHILD-RANGE", tree.where(fn), "children 0 .. slotuse inclusive")
        if name == "clear_recursive":
            g = cfgm.CFG(fn)
            rec = [z for z in walk(body) if "callee" in z and z["callee"]["name"] == "clear_recursive"]
            fr = [z for z in walk(body) if "callee" in z and z["callee"]["name"] == "free_node"]
            if len(rec) != 1 or len(fr) != 1 or not g.dominates(g.pos_deep(rec[0]), g.pos_deep(fr[0])) or \
                    not match.same_expr(kids(rec[0])[1], kids(fr[0])[1]):
                ck.violation("CLEAR-RESET", fn.qname, "recursive", "each child must be cleared recursively and then freed, once", fn.nloc(loops[0]))
            else:
                ck.ok("CLEAR-RESET", tree.where(fn), "per child: clear_recursive(c) then free_node(c)")


def field_write_nodes(fn, field):
    out = []
    for z in fn.nodes():
        b = match.binop(z, ("=",)) if z["k"] in ("BinaryOperator", "CXXOperatorCallExpr") else None
        if b and match.this_field(b[1]) == field:
            out.append(z)
    return out


def check_assign(ck, tree):
    fn = tree.one("operator=")
    g = cfgm.CFG(fn)
    clears = this_calls(fn, "clear")
    aw = field_write_nodes(fn, "allocator_")
    copies = this_calls(fn, "copy_recursive")
    if not aw or not copies:
        raise ir.AnalysisBroken("%s: allocator_ assignment / copy_recursive not found" % fn.full)
    if len(clears) < 1:
        ck.violation("ASSIGN-ORDER", fn.qname, "no-clear", "operator= does not release the old nodes before copying", fn.loc)
        return
    pc = [g.pos_deep(c) for c in clears]
    for w in aw:
        pw = g.pos_deep(w)
        if not any(g.dominates(p, pw) for p in pc):
            ck.violation("ASSIGN-ORDER", fn.qname, "allocator-before-clear",
                         "allocator_ is replaced before clear(): the old nodes are then destroyed and deallocated through the *new* allocator, "
                         "not the one that produced them", fn.nloc(w))
            return
    for c in copies:
        p = g.pos_deep(c)
        if not any(g.dominates(q, p) for q in pc):
            ck.violation("ASSIGN-ORDER", fn.qname, "copy-before-clear", "copy_recursive() runs while the old nodes are still owned (leak, and the "
                         "new leaves are appended to the old chain)", fn.nloc(c))
            return
        if not all(g.dominates(g.pos_deep(w), p) for w in aw):
            ck.violation("ASSIGN-ORDER", fn.qname, "copy-before-allocator", "the copy is allocated before allocator_ is taken over, and will be "
                         "released through a different allocator", fn.nloc(c))
            return
    # the result of copy_recursive becomes the root; stats_ taken over after counting
    rootw = [w for w in field_write_nodes(fn, "root_") if any("callee" in z and z["callee"]["name"] == "copy_recursive" for z in walk(w))]
    if not rootw:
        ck.violation("ASSIGN-ORDER", fn.qname, "root", "the copied tree is not stored in root_", fn.loc)
        return
    ck.ok("ASSIGN-ORDER", tree.where(fn), "clear() dominates allocator_ = ..., which dominates root_ = copy_recursive(...)")
    # every other writer of allocator_ is a constructor or swap
    for f in tree.fns:
        if f.record != BT or f.kind == "ctor" or f.name in ("operator=", "swap") or f.body is None:
            continue
        if field_write_nodes(f, "allocator_"):
            ck.violation("ASSIGN-ORDER", f.qname, "allocator-writer", "%s() replaces allocator_ while nodes may be owned" % f.name, f.loc)


def check_swap(ck, tu, tree):
    fn = tree.one("swap")
    rec = [r for r in tu.records if r["qname"] == BT and r.get("targs") == tree.targs]
    if not rec:
        rec = [r for r in tu.records if r["qname"] == BT]
    fields = [f["name"] for f in rec[0]["fields"]]
    other = fn.params[0]["did"]
    swapped = set()
    for z in fn.nodes():
        if "callee" in z and z["callee"]["name"] == "swap" and len(kids(z)) == 2:
            a, b = kids(z)
            fa, fb = match.this_field(a), match.field_of(b)
            if fa is None and match.this_field(b):
                fa, fb = match.this_field(b), match.field_of(a)
            if fa and fb and fb[1] == fa and ref_of(fb[0]) == other:
                swapped.add(fa)
    missing = [f for f in fields if f not in swapped]
    if missing:
        ck.violation("SWAP-COMPLETE", fn.qname, "swap:" + ",".join(missing), "swap() leaves %s behind: the two trees then own each other's nodes "
                     "with the wrong bookkeeping/allocator" % missing, fn.loc)
    else:
        ck.ok("SWAP-COMPLETE", tree.where(fn), "all %d data members exchanged" % len(fields))


# ------------------------------------------------------------------ size accounting
def check_size(ck, tree):
    for name, op in (("insert_start", "++"), ("erase_one", "--"), ("erase", "--")):
        for fn in tree.find(name):
            ups = [z for z in fn.nodes() if z["k"] == "UnaryOperator" and z.get("op") in ("++", "--") and stats_field(kids(z)[0]) == "size"]
            if name == "erase" and not any("callee" in z and z["callee"]["name"] == "erase_iter_descend" for z in fn.nodes()):
                continue       # erase(key) loops over erase_one
            if len(ups) != 1 or ups[0]["op"] != op:
                ck.violation("SIZE-PAIR", fn.qname, name, "%s() must %s stats_.size exactly once" % (name, op), fn.loc)
                continue
            par = fn.parent(ups[0])
            while par is not None and par["k"] != "IfStmt":
                par = fn.parent(par)
            good = False
            if par is not None:
                c = strip_casts(kids(par)[0])
                if name == "insert_start":
                    f = match.field_of(c)
                    good = f is not None and f[1] == "second"
                else:
                    u = match.unop(c, ("!",))
                    inner = strip_casts(u[1]) if u else None
                    good = inner is not None and "callee" in inner and inner["callee"]["name"] == "has" and any(
                        z["k"] == "DeclRefExpr" and z["ref"]["name"] == "btree_not_found" for z in walk(inner))
            if not good:
                ck.violation("SIZE-PAIR", fn.qname, name, "stats_.size changes although the operation may not have %s an element"
                             % ("inserted" if op == "++" else "removed"), fn.nloc(ups[0]))
            else:
                ck.ok("SIZE-PAIR", tree.where(fn), "%ssize guarded by the operation's own result" % op)


# ------------------------------------------------------------------ leaf chain
def run_shape(fn, stmts, setup, tree=None):
    sh = B.Shape(fn, tree=tree)
    st = B.ShapeState()
    setup(st)
    # loops inside the fragment must not touch the chain
    for s in stmts:
        for l in match.loops_in(s):
            for z in walk(l):
                if z["k"] == "MemberExpr" and z.get("member") in B.LINKS:
                    raise ir.AnalysisBroken("%s: chain pointer written inside a loop" % fn.full)
    return sh.run(stmts, st)


def check_leafchain(ck, tree):
    # split_leaf_node(leaf, ...): new leaf N directly after L
    fn = tree.one("split_leaf_node")
    L = fn.params[0]["did"]

    def setup(st):
        st.env[L] = "L"
        st.null["L"] = False
        st.heap[("L", "next_leaf")] = "X"
    outs = run_shape(fn, kids(fn.body), setup, tree)
    bad = None
    for s in outs:
        if len(s.news) != 1:
            bad = "expected one new leaf"
            break
        N = s.news[0]
        xnull = s.null.get("X")
        if s.problems:
            bad = s.problems[0]
        elif s.heap.get((N, "next_leaf")) != "X":
            bad = "new->next_leaf is %s, must be the old successor" % s.heap.get((N, "next_leaf"))
        elif s.heap.get((N, "prev_leaf")) != "L":
            bad = "new->prev_leaf is %s, must be the split leaf" % s.heap.get((N, "prev_leaf"))
        elif s.heap.get(("L", "next_leaf")) != N:
            bad = "leaf->next_leaf is %s, must be the new leaf" % s.heap.get(("L", "next_leaf"))
        elif xnull is True and s.tf.get("tail_leaf_") != N:
            bad = "the split leaf was the tail; tail_leaf_ must become the new leaf"
        elif xnull is False and s.heap.get(("X", "prev_leaf")) != N:
            bad = "the old successor's prev_leaf must point to the new leaf (reverse iteration skips it otherwise)"
        elif xnull is False and s.tf.get("tail_leaf_") not in (None, "old:tail_leaf_"):
            bad = "tail_leaf_ changed although the split leaf was not the tail"
        elif xnull is None:
            bad = "the old successor is never tested for null"
        if bad:
            break
    report(ck, tree, fn, "split", bad, "%d paths: N.next=old next, N.prev=L, L.next=N, old next.prev=N | tail=N" % len(outs))

    # merge_leaves(left, right, ...): right is unlinked
    fn = tree.one("merge_leaves")
    Lp, Rp = fn.params[0]["did"], fn.params[1]["did"]

    def setup2(st):
        st.env[Lp], st.env[Rp] = "L", "R"
        st.null["L"] = st.null["R"] = False
        st.heap[("L", "next_leaf")] = "R"
        st.heap[("R", "prev_leaf")] = "L"
        st.heap[("R", "next_leaf")] = "X"
    outs = run_shape(fn, kids(fn.body), setup2, tree)
    bad = None
    for s in outs:
        xnull = s.null.get("X")
        if s.problems:
            bad = s.problems[0]
        elif s.heap.get(("L", "next_leaf")) != "X":
            bad = "left->next_leaf is %s, must skip the emptied right leaf" % s.heap.get(("L", "next_leaf"))
        elif xnull is True and s.tf.get("tail_leaf_") != "L":
            bad = "the emptied leaf was the tail; tail_leaf_ must become the left leaf (it dangles after the free otherwise)"
        elif xnull is False and s.heap.get(("X", "prev_leaf")) != "L":
            bad = "the successor's prev_leaf still points to the emptied leaf, which is freed by the parent"
        elif xnull is None:
            bad = "the successor of the emptied leaf is never tested for null"
        if bad:
            break
    report(ck, tree, fn, "merge", bad, "%d paths: L.next=R.next, successor.prev=L | tail=L" % len(outs))

    # appends: copy_recursive (leaf branch) and bulk_load (leaf loop body)
    fn = tree.one("copy_recursive")
    top = [s for s in kids(fn.body) if s["k"] == "IfStmt"]
    if not top or not any("callee" in z and z["callee"]["name"] == "is_leafnode" for z in walk(kids(top[0])[0])):
        raise ir.AnalysisBroken("%s: leaf branch not found" % fn.full)
    check_append(ck, tree, fn, kids(kids(top[0])[1]), "copy")
    for fn in tree.find("bulk_load"):
        loops = [l for l in match.loops_in(fn.body) if any("callee" in z and z["callee"]["name"] == "allocate_leaf" for z in walk(l))]
        if len(loops) != 1:
            raise ir.AnalysisBroken("%s: leaf loop not found" % fn.full)
        body = match.loop_parts(loops[0])[3]
        check_append(ck, tree, fn, kids(body), "bulk")


def check_append(ck, tree, fn, stmts, what):
    def setup(st):
        st.tf["head_leaf_"] = "H"
        st.tf["tail_leaf_"] = "T"
    # strip inner loops that fill the slots
    outs = run_shape(fn, stmts, setup, tree)
    bad = None
    for s in outs:
        # consistent start states only: head null <=> tail null
        hn, tn = s.null.get("H"), s.null.get("T")
        if hn is not None and tn is not None and hn != tn:
            continue
        empty = hn if hn is not None else tn
        if len(s.news) != 1:
            bad = "expected one new leaf per step"
            break
        N = s.news[0]
        if s.problems:
            # a dereference of the old tail is fine when the *head* was tested non-null (same fact)
            probs = [p for p in s.problems if not ("possibly-null T" in p and hn is False) and not ("possibly-null H" in p and tn is False)]
            if probs:
                bad = probs[0]
                break
        if s.tf.get("tail_leaf_") != N:
            bad = "tail_leaf_ is %s after appending, must be the new leaf" % s.tf.get("tail_leaf_")
        elif s.heap.get((N, "next_leaf")) != "NULL":
            bad = "the appended leaf's next_leaf must be null"
        elif empty is True and (s.tf.get("head_leaf_") != N or s.heap.get((N, "prev_leaf")) != "NULL"):
            bad = "first leaf: head_leaf_ must be the new leaf and its prev_leaf null"
        elif empty is False and (s.heap.get(("T", "next_leaf")) != N or s.heap.get((N, "prev_leaf")) != "T" or s.tf.get("head_leaf_") != "H"):
            bad = "appending after tail T: T.next=%s new.prev=%s head=%s (want new, T, unchanged)" % (
                s.heap.get(("T", "next_leaf")), s.heap.get((N, "prev_leaf")), s.tf.get("head_leaf_"))
        elif empty is None:
            bad = "the chain is extended without testing whether it is empty"
        if bad:
            break
    report(ck, tree, fn, what, bad, "%d paths: empty chain -> head=tail=N; else T.next=N, N.prev=T, tail=N" % len(outs))


def report(ck, tree, fn, what, bad, okmsg):
    if bad:
        ck.violation("LEAFCHAIN-SPLICE", fn.qname, what, "leaf chain broken by %s: %s" % (fn.name, bad), fn.loc)
    else:
        ck.ok("LEAFCHAIN-SPLICE", tree.where(fn, what), okmsg)


# ------------------------------------------------------------------ separator maintenance on erase
def check_sep_update(ck, tree):
    for name in ("erase_one_descend", "erase_iter_descend"):
        fn = tree.one(name)
        roles = B.Roles(fn)
        ifs = B.find_underflow_ifs(fn)
        for region in ifs:
            rec = [z for z in walk(kids(region)[0]) if "callee" in z and z["callee"]["name"] == "is_underflow"][0]
            kind = "leaf" if "LeafNode" in rec["callee"]["record"] else "inner"
            holder = fn.parent(region)
            stmts = kids(holder)
            idx = [i for i, s in enumerate(stmts) if s is region][0]
            # the statements between the removal / recursive call and the underflow handling
            start = 0
            for i, s in enumerate(stmts[:idx]):
                if kind == "leaf" and any(z["k"] in ("UnaryOperator", "CompoundAssignOperator") and z.get("op") in ("--", "-=") and
                                          match.field_of(kids(z)[0]) and match.field_of(kids(z)[0])[1] == "slotuse" for z in walk(s)) \
                        and s["k"] != "IfStmt":
                    start = i + 1
                if kind == "inner" and any("callee" in z and z["callee"]["name"] == name for z in walk(s)):
                    start = i + 1
            frag = [s for s in stmts[start:idx]]
            curr_leafvar = None

            def atomize(n, run):
                n0 = n
                n = strip_casts(n)
                pt = match.ptr_truth(n0) or match.ptr_truth(n)
                if pt is not None and roles.param_of(pt) == B.P_PARENT:
                    return "P", False
                b = match.binop(n, ("<", ">=", "==", "!=", ">", "<="))
                if b:
                    op, l, r = b
                    fl, fr = match.field_of(l), match.field_of(r)
                    if roles.param_of(l) == B.P_PSLOT and fr and fr[1] == "slotuse" and roles.param_of(fr[0]) == B.P_PARENT:
                        return {"<": ("S", False), ">=": ("S", True)}.get(op)
                    if fr and fr[1] == "slotuse" and roles.param_of(fr[0]) == B.P_CURR and ref_of(l) is not None and op in ("==", "!="):
                        return "LAST", op == "!="
                    if fl and fl[1] == "slotuse" and roles.param_of(fl[0]) == B.P_CURR and const_int(r) is not None:
                        c = const_int(r)
                        if (op, c) in ((">=", 1), (">", 0), ("!=", 0)):
                            return "N", False
                        if (op, c) in (("<", 1), ("==", 0), ("<=", 0)):
                            return "N", True
                if "callee" in n and n["callee"]["name"] == "has":
                    flags = [z["ref"]["name"] for z in walk(n) if z["k"] == "DeclRefExpr" and z["ref"]["name"].startswith("btree_")]
                    if flags:
                        return ("has", flags[0]), False
                if n["k"] == "BinaryOperator" and n.get("op") in ("==", "!=", "<", ">", "<=", ">="):
                    return ("other", dtable.describe(n)), False
                return None
            seq = {"k": "CompoundStmt", "ch": frag, "id": -2}
            leaves = dtable.explore(seq, atomize, fn)
            atoms = dtable.atoms_of(leaves)
            trigger = "LAST" if kind == "leaf" else ("has", "btree_update_lastkey")
            if trigger not in atoms or "P" not in atoms or "S" not in atoms:
                ck.violation("SEP-UPDATE", fn.qname, "%s:%s:shape" % (name, kind),
                             "after removing from a %s the code must decide on (largest key changed, parent present, parentslot < parent->slotuse); "
                             "found tests on %s" % (kind, atoms), fn.nloc(region))
                continue
            bad = None
            nv = 0
            for v, lf in dtable.table(leaves, None, atoms):
                if lf["stop"][0] == "return":
                    # the not-found return of the inner part
                    continue
                nv += 1
                writes, props = [], []
                for ev in lf["events"]:
                    if ev[0] != "expr":
                        continue
                    e = strip_casts(ev[1])
                    b = match.binop(e, ("=",))
                    if b:
                        ip = match.index_parts(b[1])
                        if ip and match.field_of(ip[0]) and match.field_of(ip[0])[1] == "slotkey" and \
                                roles.param_of(match.field_of(ip[0])[0]) == B.P_PARENT:
                            writes.append((roles.param_of(ip[1]) == B.P_PSLOT, b[2]))
                    if any(z["k"] == "DeclRefExpr" and z["ref"]["name"] == "btree_update_lastkey" for z in walk(e)) and \
                            match.binop(e, ("|=",)):
                        props.append(e)
                trig = v[trigger]
                direct = v["P"] and v["S"]
                nonempty = v.get("N", True)
                if not trig:
                    want = "none"
                elif direct:
                    want = "write"
                elif kind == "leaf" and not nonempty:
                    want = "none"
                else:
                    want = "propagate"
                got = "write" if writes else "propagate" if props else "none"
                if writes and props:
                    got = "both"
                if got != want:
                    bad = (v, "expected %s, found %s" % (want, got))
                    break
                if writes:
                    at_ps, rhs = writes[0]
                    src_ok = key_source_ok(rhs, roles, kind)
                    if not at_ps or not src_ok:
                        bad = (v, "the separator written is parent->slotkey[%s] = %s; it must be parent->slotkey[parentslot] = %s"
                               % ("parentslot" if at_ps else "?", dtable.describe(rhs),
                                  "leaf->key(leaf->slotuse - 1)" if kind == "leaf" else "result.lastkey"))
                        break
                if props:
                    srcs = [a for z in walk(props[0]) if z["k"] in ("CXXConstructExpr", "CXXTemporaryObjectExpr") and len(kids(z)) == 2
                            for a in [kids(z)[1]]]
                    if not srcs or not key_source_ok(srcs[0], roles, kind):
                        bad = (v, "the key propagated upwards is not the new largest key of the subtree")
                        break
            sig = "%s:%s" % (name, kind)
            if bad:
                ck.violation("SEP-UPDATE", fn.qname, sig, "in situation {%s}: %s — a stale separator misroutes later lookups and fails verify()"
                             % (dtable.fmt_val({str(k): x for k, x in bad[0].items()}), bad[1]), fn.nloc(region))
            else:
                ck.ok("SEP-UPDATE", tree.where(fn, kind), "%d situations: separator written at parentslot or handed to the caller" % nv)


def key_source_ok(e, roles, kind):
    e = strip_casts(e)
    if kind == "inner":
        f = match.field_of(e)
        return f is not None and f[1] == "lastkey"
    if "callee" in e and e["callee"]["name"] == "key" and e.get("member_call"):
        if roles.param_of(kids(e)[0]) != B.P_CURR:
            return False
        idx = strip_casts(kids(e)[1])
        b = match.binop(idx, ("-",))
        return bool(b and match.field_of(b[1]) and match.field_of(b[1])[1] == "slotuse" and
                    roles.param_of(match.field_of(b[1])[0]) == B.P_CURR and const_int(b[2]) == 1)
    return False


# ------------------------------------------------------------------ results of the rebalancing primitives are kept
def check_result_kept(ck, tree):
    for name in ("erase_one_descend", "erase_iter_descend"):
        fn = tree.one(name)
        n = 0
        for z in walk(fn.body):
            if "callee" not in z or "result_t" not in (z["callee"].get("ret") or ""):
                continue
            if z["callee"]["name"] in ("result_t", "operator|=", "operator="):
                continue
            n += 1
            par = fn.parent(z)
            while par is not None and par["k"] in ("ImplicitCastExpr", "ParenExpr", "CXXConstructExpr", "CXXBindTemporaryExpr",
                                                   "MaterializeTemporaryExpr", "ExprWithCleanups"):
                par = fn.parent(par)
            used = par is not None and par["k"] not in ("CompoundStmt", "IfStmt", "WhileStmt", "ForStmt")
            if par is not None and par["k"] == "IfStmt" and kids(par)[0] is not None and any(x is z for x in walk(kids(par)[0])):
                used = True
            if not used:
                ck.violation("RESULT-KEPT", fn.qname, "%s:%s" % (name, z["callee"]["name"]),
                             "the result of %s() is dropped: the parent never learns that a node was emptied (btree_fixmerge) or that the "
                             "largest key changed (btree_update_lastkey)" % z["callee"]["name"], fn.nloc(z))
        ck.ok("RESULT-KEPT", tree.where(fn), "%d result_t-returning calls, none discarded" % n)
    for name, flag in (("merge_leaves", "btree_fixmerge"), ("merge_inner", "btree_fixmerge")):
        fn = tree.one(name)
        rets = [r for r in walk(fn.body) if r["k"] == "ReturnStmt"]
        if not rets or not all(any(z["k"] == "DeclRefExpr" and z["ref"]["name"] == flag for z in walk(r)) for r in rets):
            ck.violation("RESULT-KEPT", fn.qname, name, "%s() must report %s so that the parent frees the emptied node" % (name, flag), fn.loc)
        else:
            ck.ok("RESULT-KEPT", tree.where(fn), "returns " + flag)


# ------------------------------------------------------------------ driver
def run(ck):
    ck.explanation = (
        "Decides the structural clauses of C02, not the run-time invariants themselves. Node storage is obtained only in allocate_leaf/"
        "allocate_inner and released only in free_node, each with the node type, rebound allocator and counter of its kind; an unlinked child "
        "is freed before the slot that referenced it is overwritten and the emptied root is freed exactly once with all owners redirected; "
        "clear() releases children, then the root, then nulls the owners and resets the statistics; operator= clears before it replaces the "
        "allocator and copies after; swap exchanges every data member; the leaf-chain splices of split, merge, copy and bulk load are executed "
        "on a finite alias model and must produce a consistent doubly linked chain for null and non-null neighbours; size changes only "
        "under the operation's own success flag; removing the largest key of a leaf writes the parent's separator or hands the key upwards in "
        "every situation; every consistent underflow situation is resolved by one legal merge/shift with the correct separator slot; "
        "is_full/is_few/is_underflow fit the node's own capacity; no rebalancing result is dropped. Balance, fill and key order after each step "
        "of a history are value-dependent and not decided.")
    ck.assumptions += [
        "B+ tree shape facts used to prune impossible underflow situations (see C01)",
        "the alias model treats the successor/tail pointers as one symbolic node that may be null; element moves inside loops do not touch chain pointers (checked)",
    ]
    n_trees = 0
    for cfg, tu in B.load(ck.tier):
        ts = B.trees(tu)
        n_trees += len(ts)
        for t in ts:
            check_alloc_owner(ck, t)
            check_free_on_unlink(ck, t)
            check_clear(ck, t)
            check_assign(ck, t)
            check_swap(ck, tu, t)
            check_size(ck, t)
            check_leafchain(ck, t)
            check_sep_update(ck, t)
            check_result_kept(ck, t)
            for name in ("erase_one_descend", "erase_iter_descend"):
                B.check_underflow(ck, t, t.one(name))
            if t.small:
                B.check_capacity(ck, t, cfg)
                ck.guarded(lambda: btprim.check_primitives(ck, t, cfg))
                ck.guarded(lambda: btprim.check_insert(ck, tu, t, cfg))
                ck.guarded(lambda: btprim.check_erase(ck, tu, t, cfg))
                ck.guarded(lambda: btprim.check_bulk_load(ck, tu, t, cfg))
    m = n_trees
    ck.floor("NODE-ALLOC-OWNER", 7 * m)
    ck.floor("FREE-ON-UNLINK", 2 * m)
    ck.floor("ROOT-COLLAPSE", 4 * m)
    ck.floor("CLEAR-RESET", 4 * m)
    ck.floor("CHILD-RANGE", 2 * m)
    ck.floor("ASSIGN-ORDER", m)
    ck.floor("SWAP-COMPLETE", m)
    ck.floor("SIZE-PAIR", 3 * m)
    ck.floor("LEAFCHAIN-SPLICE", 4 * m)
    ck.floor("SEP-UPDATE", 4 * m)
    ck.floor("RESULT-KEPT", 4 * m)
    ck.floor("UNDERFLOW-LEGAL", 4 * m)
    ck.floor("NODE-CAPACITY", m)
    ck.floor("PRIMITIVE-EFFECT", 4 * m)      # eight primitives per small_traits tree
    ck.floor("INSERT-EFFECT", m)            # leaf and inner level per small_traits tree
    ck.floor("ERASE-EFFECT", 2 * m)
    ck.floor("BULK-LOAD-SHAPE", m // 2)
