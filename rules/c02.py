"""C02 — B+ tree structure invariants and exact allocation: the clauses visible in the shape of the code.
Who may allocate and free nodes and how the counters pair with it; freeing an unlinked node before its
slot is overwritten; root collapse; clear()/destructor/assignment order (nodes are released through the
allocator that produced them); swap completeness; leaf chain splices on a finite alias model; size
accounting; separator maintenance when the last entry of a leaf is removed; legality of every underflow
resolution; capacity predicates; no dropped rebalancing result.

Verdict policy of this file: a violation is reported only on positive evidence — a path, a valuation or an
evaluated state that contradicts the clause, produced from constructs the rule understands.  Where the rule
merely fails to find what it expects, the answer is dtable.Undecidable (exit 2) unless the absence is
established in a closed world (every operation on that path is recognised and none has the effect)."""
from engine import ir, dtable, match, cfg as cfgm
from engine.ir import kids, walk, strip_casts, const_int, ref_of
from rules import btcommon as B
from rules import btprim

BT = B.BT
Und = dtable.Undecidable

CASTS = ("ImplicitCastExpr", "CStyleCastExpr", "CXXStaticCastExpr", "CXXFunctionalCastExpr", "CXXReinterpretCastExpr",
         "CXXConstCastExpr")
CONTROL = ("IfStmt", "WhileStmt", "ForStmt", "DoStmt", "CXXForRangeStmt", "SwitchStmt", "ConditionalOperator", "CXXTryStmt",
           "GotoStmt")


def und(fn, n, what):
    """cannot decide: names the construct that was not understood"""
    raise Und("%s: %s: %s" % (fn.nloc(n) if n is not None and n.get("l") else fn.loc, fn.qname, what))


def guarded(ck, what, thunk):
    """one rule that cannot decide does not hide what the others establish; a code shape the rule's own bookkeeping does not
    expect (an index or key that is not there) is 'cannot decide' as well, never a crash and never a violation"""
    try:
        thunk()
    except ir.AnalysisBroken as e:
        ck.deferred.append(str(e))
    except (IndexError, KeyError, TypeError, AttributeError, ValueError) as e:
        import traceback
        tb = traceback.extract_tb(e.__traceback__)
        ck.deferred.append("%s: code shape not understood (%s: %s at rules/c02.py:%s)"
                           % (what, type(e).__name__, e, tb[-1].lineno if tb else "?"))


def node_kind(ty):
    ty = (ty or "").replace("const ", "").strip()
    while ty.endswith("*") or ty.endswith("&") or ty.endswith(" "):
        ty = ty[:-1]
    if ty.startswith("std::allocator<") and ty.endswith(">"):
        ty = ty[len("std::allocator<"):-1].strip()
    if ty.endswith("::LeafNode"):
        return "leaf"
    if ty.endswith("::InnerNode"):
        return "inner"
    return None


def stats_field(e):
    """'leaves' for this->stats_.leaves"""
    f = match.field_of(e)
    if f and match.this_field(f[0]) == "stats_":
        return f[1]
    return None


def is_call(z, *names):
    return z is not None and "callee" in z and (not names or z["callee"]["name"] in names)


def this_call(z):
    """z is a call of a member function on *this"""
    return is_call(z) and z.get("member_call") and kids(z) and strip_casts(kids(z)[0]) is not None and \
        strip_casts(kids(z)[0])["k"] == "This"


def own_call(tree, z):
    """the callee if z calls a function of the tree class itself (a member on *this or a static member), else None"""
    if not is_call(z):
        return None
    cal = tree.by_did.get(z["callee"].get("did"))
    if cal is None or cal.record != BT or cal.body is None:
        return None
    if z.get("member_call") and not this_call(z):
        return None
    return cal


def call_args(z):
    return kids(z)[1:] if z.get("member_call") else kids(z)


def mentions_ref(e, name):
    return any(z["k"] == "DeclRefExpr" and z["ref"]["name"] == name for z in walk(e))


def mentions_member(e, *members):
    return any(z["k"] == "MemberExpr" and z.get("member") in members for z in walk(e))


class Locals:
    """locals that are initialised once and never written stand for their initialiser (value at the declaration)"""

    def __init__(self, fn):
        self.inits, self.written, self.refs = {}, set(), set()
        for n in fn.nodes():
            k = n["k"]
            if k == "VarDecl":
                if kids(n) and kids(n)[0] is not None:
                    self.inits[n["did"]] = kids(n)[0]
                if n.get("isref") or (n.get("ty") or "").rstrip().endswith("&"):
                    self.refs.add(n["did"])
            elif k in ("BinaryOperator", "CompoundAssignOperator", "CXXOperatorCallExpr"):
                b = match.binop(n)
                if b and b[0].endswith("=") and b[0] not in ("==", "!=", "<=", ">="):
                    self.written.add(ref_of(b[1]))
                if k == "CXXOperatorCallExpr":
                    u = match.unop(n, ("++", "--"))
                    if u:
                        self.written.add(ref_of(u[1]))
            elif k == "UnaryOperator" and n.get("op") in ("++", "--", "&"):
                self.written.add(ref_of(kids(n)[0]))
        self.written.discard(None)

    def stable(self, did):
        return did in self.inits and did not in self.written

    def resolve(self, e):
        """the initialiser behind a chain of stable locals (casts stripped)"""
        e = strip_casts(e)
        for _ in range(6):
            d = ref_of(e)
            if d is None or not self.stable(d):
                break
            e = strip_casts(self.inits[d])
        return e

    def expand(self, e, env=None, depth=0):
        """copy of e with stable locals (and, if given, the locals of a dtable run) replaced by their initialisers"""
        if e is None:
            return None
        if e["k"] == "DeclRefExpr" and depth < 6:
            d = e["ref"]["id"]
            init = None
            if env is not None and isinstance(env.get(d), dict) and (d not in self.written or d in self.refs):
                init = env[d]
            elif env is None and self.stable(d):
                init = self.inits[d]
            if init is not None:
                return self.expand(init, env, depth + 1)
        if "ch" not in e:
            return e
        out = dict(e)
        out["ch"] = [self.expand(c, env, depth) for c in e["ch"]]
        return out


def opaque_atom(n, registry=None):
    """an atom for a condition the rule does not interpret (so that a path through it is still a path); None where
    the dtable interpreter decomposes the node itself"""
    k = n["k"]
    if k in CASTS or k == "ParenExpr":
        return None
    if k == "UnaryOperator" and n.get("op") == "!":
        return None
    if k == "BinaryOperator" and n.get("op") in ("&&", "||", ","):
        return None
    if k in ("ConditionalOperator", "CXXBoolLiteralExpr") or const_int(n) is not None:
        return None
    if k == "DeclRefExpr" and (n.get("ty") or "").replace("const ", "") == "bool" and n["ref"].get("kind") in ("local", "param"):
        return None
    key = ("other", dtable.describe(n))
    if registry is not None:
        registry[key] = n
    return key, False


def with_bool_cmp(atomize):
    """e == true / e != false / false == e ... are decided as e / !e"""
    def wrapped(n, run):
        n1 = strip_casts(n)
        b = match.binop(n1, ("==", "!=")) if n1 is not None and n1["k"] == "BinaryOperator" else None
        if b:
            for x, y in ((b[1], b[2]), (b[2], b[1])):
                y1 = strip_casts(y)
                if y1 is not None and y1["k"] == "CXXBoolLiteralExpr":
                    r = wrapped(x, run)
                    neg = (b[0] == "==") != bool(const_int(y1))
                    if isinstance(r, bool):
                        return r != neg
                    if isinstance(r, tuple):
                        return r[0], bool(r[1]) != neg
        return atomize(n, run)
    return wrapped


def other_atoms(val):
    return [k for k in val if isinstance(k, tuple) and k and k[0] == "other"]


def path_roots(lf):
    """(index, kind, node) of everything evaluated on a dtable path, in order: 'expr', 'decl' (the VarDecl), 'loop', 'ret'"""
    out = []
    if lf["stop"][0] in ("goto", "break", "continue"):
        # the path jumps out of what was explored: what it executes after the jump is not in the event list, and 'the
        # expected operation is not on the path' would be a conclusion from code that was not looked at
        raise Und("a path leaves the explored fragment by %s; where it continues is not followed" % lf["stop"][0])
    for i, ev in enumerate(lf["events"]):
        if ev[0] in ("expr", "decl", "loop"):
            out.append((i, ev[0], ev[1]))
    if lf["stop"][0] == "return" and lf["stop"][1] and lf["stop"][1][0] is not None:
        out.append((len(lf["events"]), "ret", lf["stop"][1][0]))
    return out


def path_nodes(lf):
    for i, kind, n in path_roots(lf):
        if kind == "loop":
            continue
        yield from walk(n)


def path_loops(lf):
    return [n for i, kind, n in path_roots(lf) if kind == "loop"]


# ------------------------------------------------------------------ call graph of one instantiation
def callers_map(tree):
    m = {}
    for f in tree.fns:
        if f.body is None:
            continue
        for z in f.nodes():
            if "callee" in z and z["callee"].get("did") in tree.by_did:
                m.setdefault(z["callee"]["did"], set()).add(f.did)
    return m


def owned_by(tree, cm, fn, owners, seen=None):
    """every call chain into fn comes through one of the owner functions (fn is an implementation detail of them)"""
    if fn.name in owners and fn.record == BT:
        return True
    seen = set() if seen is None else seen
    if fn.did in seen:
        return True
    seen.add(fn.did)
    cs = cm.get(fn.did, set()) - {fn.did}
    if not cs:
        return False
    return all(owned_by(tree, cm, tree.by_did[c], owners, seen) for c in cs)


def reaches(tree, fn, pred, depth=0, seen=None):
    """fn or a member function it calls on *this (transitively) contains a node satisfying pred"""
    seen = set() if seen is None else seen
    if fn is None or fn.body is None or fn.did in seen or depth > 4:
        return False
    seen.add(fn.did)
    for z in fn.nodes():
        if pred(z):
            return True
        if own_call(tree, z) is not None:
            if reaches(tree, own_call(tree, z), pred, depth + 1, seen):
                return True
    return False


def straight_line(fn):
    return fn.body is not None and not any(z["k"] in CONTROL for z in walk(fn.body))


# ------------------------------------------------------------------ who may allocate / free
def counter_write(z):
    """(field, kind, amount) if z writes this->stats_.<field>: kind '+' / '-' (amount None if not a constant), 'zero', 'set'"""
    if z["k"] not in ("UnaryOperator", "BinaryOperator", "CompoundAssignOperator"):
        return None
    u = match.unop(z, ("++", "--"))
    if u:
        f = stats_field(u[1])
        return (f, "+" if u[0] == "++" else "-", 1) if f else None
    b = match.binop(z, ("=", "+=", "-="))
    if not b or not stats_field(b[1]):
        return None
    fld, rhs = stats_field(b[1]), strip_casts(b[2])
    if b[0] in ("+=", "-="):
        return fld, b[0][0], const_int(b[2])
    final = rhs
    while match.binop(final, ("=",)):
        final = strip_casts(match.binop(final, ("=",))[2])
    if const_int(final) == 0:
        return fld, "zero", 0
    r = match.binop(rhs, ("+", "-"))
    if r:
        if stats_field(r[1]) == fld:
            return fld, r[0], const_int(r[2])
        if r[0] == "+" and stats_field(r[2]) == fld:
            return fld, "+", const_int(r[1])
    return fld, "set", None


def counter_effect(fn, nodes, fields=("leaves", "inner_nodes")):
    """net change of the node counters over a list of evaluated nodes -> ({field: delta}, unknown)
    unknown: stats_ is touched in a way that is not a recognised counter update"""
    delta, unknown, accounted, mentions = {}, None, 0, 0
    for z in nodes:
        if z["k"] == "MemberExpr" and match.this_field(z) == "stats_":
            mentions += 1
        w = counter_write(z)
        if w is None:
            continue
        fld, kind, amount = w
        accounted += 1
        if kind in ("+", "-") and z["k"] == "BinaryOperator":
            accounted += 1                      # f = f + c mentions stats_ twice
        if fld not in fields:
            continue
        if kind in ("+", "-") and amount is not None:
            delta[fld] = delta.get(fld, 0) + (amount if kind == "+" else -amount)
        else:
            unknown = unknown or z
    if mentions > accounted and unknown is None:
        unknown = [z for z in nodes if z["k"] == "MemberExpr" and match.this_field(z) == "stats_"][0]
    return delta, unknown


def is_alloc_call(z):
    return is_call(z, "allocate") and "allocator" in (z["callee"].get("record") or "")


def is_release_call(z):
    return is_call(z, "deallocate", "destroy") and "allocator" in (z["callee"].get("record") or "")


def check_alloc_owner(ck, tree):
    allocs, frees, counter_writes = [], [], []
    for fn in tree.fns:
        if fn.body is None:
            continue
        for z in fn.nodes():
            if z["k"] == "CXXNewExpr" and node_kind(z.get("alloc_ty")):
                allocs.append((fn, z, "new " + node_kind(z.get("alloc_ty"))))
            if z["k"] == "CXXDeleteExpr":
                t = kids(z)[0].get("ty") if kids(z) else ""
                if node_kind(t):
                    frees.append((fn, z, "delete"))
            if is_alloc_call(z):
                allocs.append((fn, z, "allocate"))
            if is_release_call(z):
                frees.append((fn, z, z["callee"]["name"]))
            w = counter_write(z)
            if w and w[0] in ("leaves", "inner_nodes") and w[1] != "zero":
                counter_writes.append((fn, z, w[1] if w[1] == "set" else {"+": "++", "-": "--"}[w[1]], w[0]))
    # positive evidence: the operation itself, found in a function that is not (part of) an owner
    cm = callers_map(tree)
    A, F = ("allocate_leaf", "allocate_inner"), ("free_node",)
    for fn, z, what in allocs:
        if not owned_by(tree, cm, fn, A):
            ck.violation("NODE-ALLOC-OWNER", fn.qname, "alloc:" + what, "nodes are obtained outside allocate_leaf/allocate_inner (%s): "
                         "the node counters and the allocator pairing are bypassed" % what, fn.nloc(z))
    for fn, z, what in frees:
        if not owned_by(tree, cm, fn, F):
            ck.violation("NODE-ALLOC-OWNER", fn.qname, "free:" + what, "nodes are released outside free_node (%s)" % what, fn.nloc(z))
    for fn, z, op, fld in counter_writes:
        if not owned_by(tree, cm, fn, A + F):
            ck.violation("NODE-ALLOC-OWNER", fn.qname, "counter:" + fld, "stats_.%s is modified (%s) outside the allocation functions" % (fld, op),
                         fn.nloc(z))
    for name, kind, fld, factory in (("allocate_leaf", "leaf", "leaves", "leaf_node_allocator"),
                                     ("allocate_inner", "inner", "inner_nodes", "inner_node_allocator")):
        guarded(ck, "NODE-ALLOC-OWNER", lambda: check_allocate_fn(ck, tree, tree.one(name), kind, fld, factory))
    for name, kind in (("leaf_node_allocator", "leaf"), ("inner_node_allocator", "inner")):
        guarded(ck, "NODE-ALLOC-OWNER", lambda: check_factory(ck, tree, tree.one(name), kind))
    guarded(ck, "NODE-ALLOC-OWNER", lambda: check_free_node(ck, tree, tree.one("free_node")))
    guarded(ck, "NODE-ALLOC-OWNER", lambda: check_init_null(ck, tree, tree.one("initialize", BT + "::LeafNode")))


FACTORIES = ("leaf_node_allocator", "inner_node_allocator")


def flatten_helpers(tree, fn, nodes, depth=0):
    """nodes plus the bodies of straight-line member helpers called on *this (a step moved into a private helper);
    -> (nodes, unknown calls)"""
    out, unknown = [], []
    for z in nodes:
        out.append(z)
        if own_call(tree, z) is not None and z["callee"]["name"] not in FACTORIES:
            cal = own_call(tree, z)
            if cal.did != fn.did and depth < 2 and straight_line(cal):
                sub, u2 = flatten_helpers(tree, cal, list(walk(cal.body)), depth + 1)
                out += sub
                unknown += u2
            else:
                unknown.append(z)
    return out, unknown


def check_allocate_fn(ck, tree, fn, kind, fld, factory):
    """on every path: one node of the right kind constructed in place on storage from <factory>().allocate(1), initialised,
    counted once in stats_.<fld>"""
    leaves = dtable.explore(fn.body, lambda n, run: None, fn)      # any real branching is reported as not understood
    for lf in leaves:
        if path_loops(lf):
            und(fn, path_loops(lf)[0], "loop in an allocation function")
        nodes, unknown = flatten_helpers(tree, fn, list(path_nodes(lf)))
        news = [z for z in nodes if z["k"] == "CXXNewExpr"]
        ctrs = [z for z in nodes if is_call(z, "construct") and "allocator" in (z["callee"].get("record") or "")]
        al = [z for z in nodes if is_alloc_call(z)]
        fac = [z["callee"]["name"] for z in nodes if is_call(z, *FACTORIES)]
        init = [z for z in nodes if is_call(z, "initialize") and node_kind(z["callee"].get("record"))]
        delta, cnt_unknown = counter_effect(fn, nodes)
        for z in nodes:
            if not is_call(z) or is_alloc_call(z) or is_call(z, "construct", "initialize", "operator new", *FACTORIES):
                continue
            if z["k"] in ("CXXConstructExpr", "CXXTemporaryObjectExpr") and \
                    (node_kind(z["callee"].get("record")) or "allocator" in (z["callee"].get("record") or "")):
                continue
            if own_call(tree, z) is not None:
                continue                         # handled by flatten_helpers
            unknown.append(z)
        problems = []

        def missing(what, closed_extra=True):
            # absence is evidence only in a closed world: every call on the path is one of the recognised kinds
            if unknown or not closed_extra:
                und(fn, unknown[0] if unknown else None, "%s not found, and the path contains operations of an unknown kind (%s)"
                    % (what, dtable.describe(unknown[0]) if unknown else "stats_ access"))
            problems.append(what + " is missing")
        # construction
        built = [(z, node_kind(z.get("alloc_ty")), bool(z.get("placement"))) for z in news]
        for z in ctrs:                                  # construct(a, p) / a.construct(p): the pointer is the second child
            built.append((z, node_kind(strip_casts(kids(z)[1]).get("ty")) if len(kids(z)) >= 2 else None, True))
        if any(k is not None and k != kind for z, k, p in built):
            problems.append("constructs a %s node" % [k for z, k, p in built if k is not None and k != kind][0])
        elif any(k == kind and not p for z, k, p in built):
            problems.append("the %s node is not constructed in place on allocator storage" % kind)
        elif len([1 for z, k, p in built if k == kind]) > 1:
            problems.append("constructs %d %s nodes on one path" % (len([1 for z, k, p in built if k == kind]), kind))
        elif not [1 for z, k, p in built if k == kind]:
            if built:
                und(fn, built[0][0], "object construction of an unrecognised type")
            missing("the in-place construction of the %s node" % kind)
        # storage
        if len(al) > 1:
            problems.append("allocates %d times on one path" % len(al))
        elif len(al) == 1:
            args = kids(al[0])[1:]                      # a.allocate(n) / allocator_traits::allocate(a, n)
            n = const_int(args[0]) if args else None
            if n is None:
                und(fn, al[0], "allocate() with a count that is not a constant")
            ak = node_kind(strip_casts(kids(al[0])[0]).get("ty")) if kids(al[0]) else None
            if n != 1:
                problems.append("allocates storage for %d nodes" % n)
            elif ak is not None and ak != kind:
                problems.append("the storage is allocated through an allocator for %s nodes" % ak)
        else:
            missing("allocate(1)")
        if fac and any(f != factory for f in fac):
            problems.append("storage comes from %s(), must come from %s()" % ([f for f in fac if f != factory][0], factory))
        elif not fac and not any(match.this_field(z) == "allocator_" for z in nodes):
            # neither the factory nor a rebind of allocator_ written out in place
            missing("the call of %s()" % factory)
        # counter
        if cnt_unknown is not None:
            und(fn, cnt_unknown, "stats_ is updated in an unrecognised form")
        if [f for f in delta if f != fld and delta[f]]:
            problems.append("counts the node in stats_.%s" % [f for f in delta if f != fld and delta[f]][0])
        elif fld in delta and delta[fld] != 1:
            problems.append("changes stats_.%s by %+d per node" % (fld, delta[fld]))
        elif fld not in delta:
            missing("the increment of stats_.%s" % fld)
        # initialisation
        if not init:
            missing("initialize()")
        elif any(node_kind(z["callee"].get("record")) != kind for z in init):
            problems.append("initialises the node as a %s node" % node_kind(init[0]["callee"].get("record")))
        if problems:
            ck.violation("NODE-ALLOC-OWNER", fn.qname, fn.name, "; ".join(problems), fn.loc)
            return
    ck.ok("NODE-ALLOC-OWNER", tree.where(fn), "placement-new %s node on %s().allocate(1), ++stats_.%s, initialize()" % (kind, factory, fld))


def check_factory(ck, tree, fn, kind):
    """<kind>_node_allocator() returns this->allocator_ rebound to the node type"""
    r = dtable.stmts_as_expr(kids(fn.body)) if fn.body is not None else None
    if r is None:
        r = Locals(fn).expand(B.single_return(fn))
    rk = node_kind(fn.d.get("ret")) or node_kind(strip_casts(r).get("ty")) or node_kind(r.get("ty"))

    def uses_allocator(e, depth=0):
        for z in walk(e):
            if match.this_field(z) == "allocator_":
                return True
            if is_call(z) and depth < 3:
                sub = dtable.inline_call(fn, z)
                if sub is not None and uses_allocator(sub, depth + 1):
                    return True
        return False
    if rk is not None and rk != kind:
        ck.violation("NODE-ALLOC-OWNER", fn.qname, fn.name, "%s() must rebind this->allocator_ to the %s node type; returns an allocator "
                     "for %s nodes" % (fn.name, kind, rk), fn.loc)
    elif rk is None:
        und(fn, None, "the node type of the returned allocator is not recognised (%s)" % fn.d.get("ret"))
    elif uses_allocator(r):
        ck.ok("NODE-ALLOC-OWNER", tree.where(fn), "rebinds allocator_ to the %s node" % kind)
    else:
        # closed world: the returned expression is built from constructor calls only and none of them sees allocator_
        opaque = [z for z in walk(r) if z["k"] == "DeclRefExpr" or (is_call(z) and z["k"] not in ("CXXConstructExpr", "CXXTemporaryObjectExpr"))]
        if opaque:
            und(fn, opaque[0], "the returned allocator is built from %s, which is not understood" % dtable.describe(opaque[0]))
        ck.violation("NODE-ALLOC-OWNER", fn.qname, fn.name, "%s() must rebind this->allocator_ to the %s node type; returns %s"
                     % (fn.name, kind, dtable.describe(r)), fn.loc)


def check_free_node(ck, tree, fn):
    """per branch the node type, allocator type and counter agree"""
    loc = Locals(fn)
    pdid = fn.params[0]["did"] if fn.params else None

    def atomize(n, run):
        n = strip_casts(n)
        if is_call(n, "is_leafnode"):
            return "leaf", False
        b = match.binop(n, ("==", "!="))
        if b:
            for x, y in ((b[1], b[2]), (b[2], b[1])):
                f = match.field_of(x)
                if f and f[1] == "level" and const_int(y) == 0 and ref_of(loc.resolve(f[0])) == pdid:
                    return "leaf", b[0] == "!="
        return None
    leaves = dtable.explore(fn.body, with_bool_cmp(atomize), fn)
    for v, lf in dtable.table(leaves, None, ["leaf"]):
        kind = "leaf" if v["leaf"] else "inner"
        fld = "leaves" if kind == "leaf" else "inner_nodes"
        fac = kind + "_node_allocator"
        env = lf["run"].env
        if path_loops(lf):
            und(fn, path_loops(lf)[0], "loop in free_node")
        rel, unknown = [], []
        for i, what, root in path_roots(lf):
            for e in walk(root):
                if not is_call(e):
                    continue
                if is_release_call(e):
                    args = kids(e)
                    if len(args) < 2:
                        und(fn, e, "release call with an unexpected argument list")
                    at = node_kind(strip_casts(args[0]).get("ty"))
                    # the node type the pointer is released as is its static type as passed: an explicit cast written in
                    # the argument (static_cast<LeafNode*>(n)) counts, implicit conversions do not
                    passed = args[1]
                    while passed is not None and passed["k"] == "ImplicitCastExpr" and kids(passed):
                        passed = kids(passed)[0]
                    pt = node_kind(passed.get("ty")) if passed is not None else None
                    pt = pt or node_kind(strip_casts(args[1]).get("ty"))
                    origin = args[0]
                    d = ref_of(args[0])
                    if d in env and isinstance(env[d], dict):
                        origin = env[d]
                    src = [z["callee"]["name"] for z in walk(origin) if is_call(z, *FACTORIES)]
                    rel.append((i, e["callee"]["name"], at, pt, src[0] if src else None, e))
                elif (e["callee"]["name"].startswith("~") and node_kind(e["callee"].get("record"))) or \
                        (is_call(e, "destroy_at") and kids(e) and node_kind(strip_casts(kids(e)[0]).get("ty"))):
                    # p->~Node() / std::destroy_at(p): what allocator_traits::destroy does for the standard allocator
                    ptr = kids(e)[0]
                    k2 = node_kind(e["callee"].get("record")) if e["callee"]["name"].startswith("~") else node_kind(strip_casts(ptr).get("ty"))
                    rel.append((i, "destroy", k2, node_kind(strip_casts(ptr).get("ty")) or k2, k2 + "_node_allocator", e))
                elif is_call(e, "is_leafnode", *FACTORIES) or \
                        (e["k"] in ("CXXConstructExpr", "CXXTemporaryObjectExpr") and "allocator" in (e["callee"].get("record") or "")):
                    pass
                else:
                    unknown.append(e)
        delta, cnt_unknown = counter_effect(fn, list(path_nodes(lf)))
        sig = "free_node:" + kind
        found = [(x[1], x[2], x[3], x[4]) for x in rel] + sorted(delta.items())

        def bad(msg):
            ck.violation("NODE-ALLOC-OWNER", fn.qname, sig,
                         "releasing a %s node must destroy and deallocate it as a %s node through %s() and decrement stats_.%s; %s (found %s)"
                         % (kind, kind, fac, fld, msg, found), fn.loc)

        def missing(what):
            if unknown:
                und(fn, unknown[0], "%s of the %s node not found, and the path contains a call of an unknown kind (%s)"
                    % (what, kind, dtable.describe(unknown[0])))
            bad("%s is missing" % what)
        # positive evidence first
        wrong = [x for x in rel if (x[2] is not None and x[2] != kind) or (x[3] is not None and x[3] != kind) or
                 (x[4] is not None and x[4] != fac)]
        des = [x for x in rel if x[1] == "destroy"]
        dea = [x for x in rel if x[1] == "deallocate"]
        if wrong:
            bad("%s is applied with allocator type %s, node type %s, allocator from %s" % (wrong[0][1], wrong[0][2], wrong[0][3], wrong[0][4]))
        elif len(des) > 1 or len(dea) > 1:
            bad("the node is %s twice on one path" % ("destroyed" if len(des) > 1 else "deallocated"))
        elif des and dea and dea[0][0] < des[0][0]:
            bad("the storage is deallocated before the node is destroyed")
        elif [f for f in delta if f != fld and delta[f]]:
            bad("stats_.%s changes" % [f for f in delta if f != fld and delta[f]][0])
        elif fld in delta and delta[fld] != -1 and cnt_unknown is None:
            bad("stats_.%s changes by %+d" % (fld, delta[fld]))
        else:
            unk = [x for x in rel if x[2] is None or x[3] is None or x[4] is None]
            if unk:
                und(fn, unk[0][5], "allocator or node type of %s(%s) not recognised" % (unk[0][1], ", ".join(dtable.describe(a) for a in kids(unk[0][5]))))
            if cnt_unknown is not None:
                und(fn, cnt_unknown, "stats_ is updated in an unrecognised form")
            if not des:
                missing("destroy()")
            elif not dea:
                missing("deallocate()")
            elif fld not in delta:
                missing("the decrement of stats_.%s" % fld)
            else:
                ck.ok("NODE-ALLOC-OWNER", tree.where(fn, kind), "destroy + deallocate(%s node, %s()) then --stats_.%s" % (kind, fac, fld))


def check_init_null(ck, tree, fn):
    """a fresh leaf has null links (the alias model of LEAFCHAIN-SPLICE relies on it): LeafNode::initialize() evaluated"""
    leaves = dtable.explore(fn.body, lambda n, run: None, fn)
    for lf in leaves:
        val, unknown = {}, []
        if path_loops(lf):
            und(fn, path_loops(lf)[0], "loop in LeafNode::initialize()")

        def ev(e):
            e = strip_casts(e)
            b = match.binop(e, ("=",))
            if b:
                v = ev(b[2])
                m = match.this_field(b[1])
                if m:
                    val[m] = v
                elif ref_of(b[1]) is None:
                    unknown.append(e)
                return v
            if B.is_null(e):
                return "NULL"
            if match.this_field(e) in B.LINKS:
                return val.get(match.this_field(e), "old")
            return "?"
        for i, what, root in path_roots(lf):
            if what == "expr":
                r = strip_casts(root)
                if match.binop(r, ("=",)):
                    ev(r)
                elif is_call(r, "initialize") and not mentions_member(r, *B.LINKS):
                    pass                                       # node::initialize(level)
                else:
                    unknown.append(r)
            elif what == "decl" and kids(root) and mentions_member(kids(root)[0], *B.LINKS):
                unknown.append(root)
        for m in B.LINKS:
            got = val.get(m)
            if got == "NULL":
                continue
            if got in ("?",) or unknown:
                und(fn, unknown[0] if unknown else None, "the value %s receives in LeafNode::initialize() is not understood" % m)
            if got is None:
                # never written here: a default member initialiser / constructor may do it
                ctors = [f for f in tree.fns if f.kind == "ctor" and f.record == BT + "::LeafNode"]
                if any(m in (i.get("field"), i.get("member"), i.get("name")) or mentions_member(i.get("e"), m) for f in ctors for i in f.inits):
                    und(fn, None, "%s is not assigned in initialize() but the LeafNode constructor initialises it" % m)
            ck.violation("NODE-ALLOC-OWNER", fn.qname, "INIT-NULL", "LeafNode::initialize() must null both chain links (%s %s)"
                         % (m, "is never written" if got is None else "keeps its old value"), fn.loc)
            return
    ck.ok("NODE-ALLOC-OWNER", tree.where(fn), "fresh leaf: prev_leaf = next_leaf = nullptr")


# ------------------------------------------------------------------ unlink => free before the slot is reused
COPYLIKE = ("copy", "copy_backward", "move", "move_backward", "copy_n", "memmove", "memcpy")


def slotuse_delta(z, loc=None):
    """amount by which z lowers some node's slotuse (--x->slotuse, x->slotuse -= c, x->slotuse = x->slotuse - c); None if z is
    no such update, 'set' if slotuse is assigned in another form.  loc: the target may be a reference local bound to
    x->slotuse"""
    if z["k"] not in ("UnaryOperator", "BinaryOperator", "CompoundAssignOperator"):
        return None

    def target(e):
        d = ref_of(e)
        if loc is not None and d is not None and d in loc.refs and d in loc.inits:
            return loc.inits[d]
        return e
    u = match.unop(z, ("++", "--"))
    if u:
        f = match.field_of(target(u[1]))
        return (1 if u[0] == "--" else -1) if f and f[1] == "slotuse" else None
    b = match.binop(z, ("=", "+=", "-="))
    if not b:
        return None
    f = match.field_of(target(b[1]))
    if not f or f[1] != "slotuse":
        return None
    if b[0] in ("+=", "-="):
        c = const_int(b[2])
        return "set" if c is None else (c if b[0] == "-=" else -c)
    r = match.binop(strip_casts(b[2]), ("-", "+"))
    if r and match.field_of(r[1]) and match.field_of(r[1])[1] == "slotuse" and match.same_expr(match.field_of(r[1])[0], f[0]) \
            and const_int(r[2]) is not None:
        return const_int(r[2]) if r[0] == "-" else -const_int(r[2])
    return "set"


def childid_write(z, loc=None):
    """z overwrites entries of some node's childid[] array (loc: the destination may be named through const locals)"""
    if is_call(z, *COPYLIKE) and len(kids(z)) >= 3 and mentions_member(kids(z)[2], "childid"):
        return True
    if loc is not None and is_call(z, *COPYLIKE) and len(kids(z)) >= 3 and mentions_member(loc.expand(kids(z)[2]), "childid"):
        return True
    b = match.binop(z, ("=",)) if z["k"] in ("BinaryOperator",) else None
    if b:
        ip = match.index_parts(b[1])
        if ip and match.field_of(ip[0]) and match.field_of(ip[0])[1] == "childid":
            return True
    return False


def reaches_tu(tu, cal, pred, depth=0, seen=None):
    """cal or a function of the program that it calls (transitively; closures, static and free helpers included) contains a
    node satisfying pred"""
    seen = set() if seen is None else seen
    if cal is None or cal.body is None or cal.did in seen:
        return False
    if depth > 5:
        return True
    seen.add(cal.did)
    for q in cal.nodes():
        if pred(q):
            return True
        if is_call(q) and reaches_tu(tu, tu.by_did.get(q["callee"].get("did")), pred, depth + 1, seen):
            return True
    return False


def foreign_reaching(tree, fn, nodes, pred):
    """the calls among nodes that run a function of the program which is not a member helper on *this (those are followed by
    own_call / reaches): a closure, a static or free helper, a member of another object - and which reaches (transitively) a
    node satisfying pred.  What such a call does is invisible to a rule that scans the caller's own nodes, so 'the effect is
    not on this path' is no evidence while one of them is on the path"""
    out = []
    for z in nodes:
        if not is_call(z):
            continue
        cal = fn.tu.by_did.get(z["callee"].get("did"))
        if cal is None or cal.body is None or cal.did == fn.did or (tree is not None and own_call(tree, z) is not None):
            continue
        if reaches_tu(fn.tu, cal, pred):
            out.append(z)
    return out


def indirect_unlink_op(tree, fn, z):
    """z may free a node, overwrite child pointers or change a fill level in a way the operation list does not name: through a
    function of the program that is not a member helper on *this (a closure, a static or free helper), or through a
    reference / pointer local.  -> description, or None"""
    if is_call(z) and own_call(tree, z) is None and not is_call(z, "free_node"):
        cal = fn.tu.by_did.get(z["callee"].get("did"))
        if cal is not None and cal.did != fn.did and \
                reaches_tu(fn.tu, cal, lambda q: is_call(q, "free_node") or childid_write(q) or slotuse_delta(q) is not None):
            return "%s() frees nodes / writes childid[] or slotuse and is not followed" % z["callee"]["name"]
        if is_call(z, *COPYLIKE) and len(kids(z)) >= 3 and not mentions_member(kids(z)[2], "childid") and \
                any(q["k"] == "DeclRefExpr" and ptr_to_ptr(q.get("ty")) for q in walk(kids(z)[2])):
            return "%s() writes through a local pointer that may point into the child array" % z["callee"]["name"]
    t = store_target(z) if z["k"] in ("UnaryOperator", "BinaryOperator", "CompoundAssignOperator", "CXXOperatorCallExpr") else None
    t = unparen(t) if t is not None else None
    if t is not None:
        ty = (t.get("ty") or "").replace("const ", "").strip()
        relevant = ty == "unsigned short" or node_ptr_type(ty)
        if relevant and t["k"] == "DeclRefExpr" and (t["ref"].get("vty") or "").rstrip().endswith("&"):
            return "store through the reference %s (may be a fill level or a child pointer)" % t["ref"]["name"]
        if relevant and t["k"] != "DeclRefExpr":
            base = match.deref_of(t)
            if base is None and match.index_parts(t):
                base = match.index_parts(t)[0]
            base = unparen(base) if base is not None else None
            while base is not None and match.binop(base, ("+", "-")):
                base = unparen(match.binop(base, ("+", "-"))[1])
            if base is not None and base["k"] == "DeclRefExpr":
                return "store through the local pointer %s (may point at a fill level or into the child array)" % base["ref"]["name"]
    return None


def fixmerge_ops(tree, fn, stmt, atomize, depth=0):
    """every path through stmt as a list of operations in execution order:
    ('def', did, expr)  a local/parameter receives a value     ('free', arg, node)   free_node(arg)
    ('ow', node)        childid[] entries are overwritten       ('dec', amount)      slotuse is lowered
    ('unk', node, why)  an operation on the child array / fill level of an unknown kind
    -> list of (valuation, ops)"""
    out = []
    loc = Locals(fn)
    for lf in dtable.explore(stmt, atomize, fn):
        paths = [[]]

        def emit(op):
            for p in paths:
                p.append(op)
        for i, what, root in path_roots(lf):
            if what == "loop":
                if any(is_call(z, "free_node") for z in walk(root)):
                    emit(("unk", root, "free_node() inside a loop"))
                if any(childid_write(z) for z in walk(root)):
                    emit(("ow", root))
                if any(slotuse_delta(z) is not None for z in walk(root)):
                    emit(("unk", root, "slotuse changed inside a loop"))
                hid = [h for h in (indirect_unlink_op(tree, fn, z) for z in walk(root)) if h]
                if hid:
                    emit(("unk", root, hid[0] + " (inside a loop / switch)"))
                continue
            if what == "decl":
                init = kids(root)[0] if kids(root) else None
                if init is not None:
                    scan = init
                else:
                    continue
            else:
                scan = root
            # evaluation order inside one full expression: arguments before the call that receives them
            seq = list(walk(scan))
            seq.reverse()
            for z in seq:
                if is_call(z, "free_node") and len(kids(z)) >= 2:
                    emit(("free", kids(z)[1], z))
                elif childid_write(z, loc):
                    emit(("ow", z))
                elif slotuse_delta(z, loc) is not None:
                    d = slotuse_delta(z, loc)
                    emit(("unk", z, "slotuse assigned in an unrecognised form") if d == "set" else ("dec", d))
                elif own_call(tree, z) is not None and z["callee"]["name"] != fn.name:
                    cal = own_call(tree, z)
                    touches = reaches(tree, cal, lambda q: is_call(q, "free_node") or childid_write(q) or slotuse_delta(q) is not None)
                    if not touches:
                        continue
                    if depth >= 2 or cal.body is None:
                        emit(("unk", z, "helper %s() not followed" % cal.name))
                        continue
                    binds = [("def", p["did"], a) for p, a in zip(cal.params, call_args(z))]
                    sub = fixmerge_ops(tree, cal, cal.body, atomize, depth + 1)
                    paths = [p + binds + ops for p in paths for v2, ops in sub]
                elif is_call(z) and not is_call(z, *COPYLIKE) and not z.get("member_call"):
                    # a function that receives the child array itself (childid, childid + k), not one element of it
                    for a in kids(z):
                        base = strip_casts(a)
                        while base is not None and match.binop(base, ("+", "-")):
                            base = strip_casts(match.binop(base, ("+", "-"))[1])
                        if base is not None and base["k"] == "MemberExpr" and base.get("member") == "childid":
                            emit(("unk", z, "%s() receives the child array" % z["callee"]["name"]))
                            break
                    else:
                        hidden = indirect_unlink_op(tree, fn, z)
                        if hidden:
                            emit(("unk", z, hidden))
                else:
                    hidden = indirect_unlink_op(tree, fn, z)
                    if hidden:
                        emit(("unk", z, hidden))
            if what == "decl":
                emit(("def", root["did"], kids(root)[0]))
        for p in paths:
            out.append((lf["val"], p))
    return out


def check_free_on_unlink(ck, tree):
    for name in ("erase_one_descend", "erase_iter_descend"):
        guarded(ck, "FREE-ON-UNLINK", lambda: _one_check_free_on_unlink(ck, tree, name))


def _one_check_free_on_unlink(ck, tree, name):
    fn = tree.one(name)
    regions = [n for n in walk(fn.body) if n["k"] == "IfStmt" and mentions_ref(kids(n)[0], "btree_fixmerge")]
    if len(regions) != 1:
        raise ir.AnalysisBroken("%s: fix-merge region not found" % fn.full)
    region = regions[0]
    roles = B.Roles(fn)
    sig = name + ":fixmerge"

    def atomize(n, run):
        n1 = strip_casts(n)
        if is_call(n1, "has") and mentions_ref(n1, "btree_fixmerge"):
            return "FM", False
        return opaque_atom(n)
    paths = [(v, ops) for v, ops in fixmerge_ops(tree, fn, region, with_bool_cmp(atomize)) if v.get("FM") is True]
    if not paths:
        und(fn, region, "no path on which the fix-merge flag is set")
    bad = None
    for v, ops in paths:
        frees = [(i, op) for i, op in enumerate(ops) if op[0] == "free"]
        ows = [(i, op) for i, op in enumerate(ops) if op[0] == "ow"]
        decs = [op for op in ops if op[0] == "dec"]
        unk = [op for op in ops if op[0] == "unk"]
        if len(frees) > 1:
            bad = ("the emptied child is unlinked from its parent but free_node() is called %d times" % len(frees), frees[1][1][2])
            break
        if not frees:
            if unk:
                und(fn, unk[0][1], unk[0][2])
            # closed world: only free_node() releases nodes (NODE-ALLOC-OWNER) and it is not reached on this path
            bad = ("the emptied child is unlinked from its parent but free_node() is called 0 times", region)
            break
        # which node is freed, and when the pointer was read
        t, (_, arg, call) = frees[0]
        e = strip_casts(arg)
        for _ in range(6):
            d = ref_of(e)
            defs = [(i, op) for i, op in enumerate(ops[:t]) if op[0] == "def" and op[1] == d] if d is not None else []
            if not defs:
                break
            t, e = defs[-1][0], strip_casts(defs[-1][1][2])
        if ref_of(e) is None:
            e = strip_casts(Locals(fn).expand(e))      # *gap with  node** const gap = inner->childid + slot
        ip = match.index_parts(e)
        if ip is None and match.deref_of(e) is not None and match.binop(match.deref_of(e), ("+",)):
            ip = match.binop(match.deref_of(e), ("+",))[1:]            # *(x->childid + i)
        is_child = ip is not None and match.field_of(ip[0]) and match.field_of(ip[0])[1] == "childid"
        if not is_child:
            if roles.param_of(e) is not None or match.this_field(e) is not None:
                bad = ("free_node(%s) does not release the unlinked child" % dtable.describe(arg), call)
                break
            und(fn, call, "free_node(%s): the node released is not understood" % dtable.describe(arg))
        if any(i < t for i, op in ows):
            bad = ("childid[slot] is overwritten before the node it points to was freed (leak, and the wrong node is freed afterwards)",
                   [op for i, op in ows if i < t][0][1])
            break
        if not ows or not decs:
            if unk:
                und(fn, unk[0][1], unk[0][2])
            bad = ("the freed child stays referenced: childid[] is not closed up / slotuse not decremented", region)
            break
    if bad:
        ck.violation("FREE-ON-UNLINK", fn.qname, sig, bad[0], fn.nloc(bad[1]) if bad[1].get("l") else fn.nloc(region))
    else:
        ck.ok("FREE-ON-UNLINK", tree.where(fn), "%d paths: childid[slot] is read for free_node() before the copy that closes the gap; "
              "slotuse decremented" % len(paths))


# ------------------------------------------------------------------ closed world of the alias model (btcommon.Shape)
# Shape.ev() executes assignment chains whose targets are locals, this->owner and <node>->link, and allocate_leaf(); every
# other construct is skipped without a trace.  A store the model skipped must never be read as 'the store is absent': the
# functions below find every construct through which a chain pointer, an owner or a node pointer local can change without
# the model executing it.
CHAINF = B.LINKS + B.OWNERS


def unparen(e):
    e = strip_casts(e)
    while e is not None and e["k"] in ("ParenExpr", "ExprWithCleanups", "MaterializeTemporaryExpr") and kids(e):
        e = strip_casts(kids(e)[0])
    return e


def node_ptr_type(ty, leaf_only=False):
    """ty is a pointer (one level; a reference to one counts) to a tree node"""
    t = (ty or "").replace("const", "").replace("struct ", "").replace(" ", "").rstrip("&")
    if not t.endswith("*") or t.endswith("**"):
        return False
    t = t[:-1]
    return t.endswith("::LeafNode") or (not leaf_only and (t.endswith("::InnerNode") or t.endswith("::node")))


def store_target(z):
    """the lvalue that z writes (assignment of any form, ++ / --), else None"""
    if z["k"] in ("BinaryOperator", "CompoundAssignOperator", "CXXOperatorCallExpr"):
        b = match.binop(z)
        if b and b[0].endswith("=") and b[0] not in ("==", "!=", "<=", ">="):
            return b[1]
    if z["k"] in ("UnaryOperator", "CXXOperatorCallExpr"):
        u = match.unop(z, ("++", "--"))
        if u:
            return u[1]
    return None


def chain_lvalue(t):
    """the lvalue t may name a chain pointer, an owner, or a node pointer that the alias model keeps in its environment"""
    t = unparen(t)
    if t is None:
        return False
    if t["k"] == "MemberExpr" and t.get("member") in CHAINF:
        return True
    if t["k"] == "DeclRefExpr":
        return node_ptr_type(t.get("ty"))
    return node_ptr_type(t.get("ty"), leaf_only=True)         # s.field, *pp, a[i], c ? x : y, f() of type LeafNode*


def writable_ref(p):
    """the parameter p is a reference through which the callee can write"""
    ty = (p.get("ty") or "").strip()
    if not ty.endswith("&"):
        return False
    core = ty.rstrip("&").rstrip()
    if core.endswith("const"):
        return False                                # T *const &
    return "*" in core or not core.startswith("const ")


_touch_cache = {}


def touches_chain(tu, cal, depth=0, seen=None):
    """cal (or a function of the program that it calls) names a chain pointer or an owner; a closure also when it writes a
    node pointer of its environment"""
    key = (id(tu), cal.did)
    if key in _touch_cache:
        return _touch_cache[key]
    seen = set() if seen is None else seen
    if cal.did in seen or cal.body is None:
        return False
    seen.add(cal.did)
    res = False
    own = {p["did"] for p in cal.params} | {z["did"] for z in walk(cal.body) if z["k"] == "VarDecl" and "did" in z}
    for z in walk(cal.body):
        if z["k"] == "MemberExpr" and z.get("member") in CHAINF:
            res = True
            break
        t = store_target(z)
        t = unparen(t) if t is not None else None
        if t is not None and t["k"] == "DeclRefExpr" and node_ptr_type(t.get("ty")) and t["ref"]["id"] not in own:
            res = True
            break
        if is_call(z):
            sub = tu.by_did.get(z["callee"].get("did"))
            if sub is not None and (depth >= 5 or touches_chain(tu, sub, depth + 1, seen)):
                res = True
                break
    if depth == 0:
        _touch_cache[key] = res
    return res


def call_may_write(fn, z, callees=True):
    """the call z may change the state of the alias model: it receives a chain pointer / node pointer local by a reference it
    can write through, or (callees) its callee touches the chain itself"""
    if is_call(z, "allocate_leaf", "is_leafnode"):
        return False
    cal = fn.tu.by_did.get(z["callee"].get("did"))
    args = kids(z)
    if z.get("member_call") or (z["k"] == "CXXOperatorCallExpr" and (z.get("op") == "()" or (cal is not None and cal.record))):
        args = args[1:]
    for i, a in enumerate(args):
        a0 = unparen(a)
        if a0 is None or not a0.get("lv") or not chain_lvalue(a0):
            continue
        if cal is None or i >= len(cal.params) or writable_ref(cal.params[i]):
            return True
    if callees and cal is not None and cal.body is not None and touches_chain(fn.tu, cal):
        return True
    return False


def opaque_effect(fn, e, callees=True, skip=()):
    """the first node at or below e that may change the state of the alias model (the model executes nothing below e but reads
    and allocate_leaf()); skip: declarations whose stores do not count (locals of a loop)"""
    for z in walk(e):
        t = store_target(z)
        if t is not None and chain_lvalue(t):
            t0 = unparen(t)
            if not (t0["k"] == "DeclRefExpr" and t0["ref"]["id"] in skip):
                return z
        if z["k"] == "UnaryOperator" and z.get("op") == "&" and kids(z) and chain_lvalue(kids(z)[0]):
            return z
        if is_call(z) and call_may_write(fn, z, callees):
            return z
    return None


def hidden_effect(fn, e, cond=False, comma=False, callees=True):
    """the first node of the full expression e that may change the state of the alias model and that Shape.ev() / Shape.cond()
    does not execute; None if the model executes every such effect of e.  Executed: assignment chains a = b = c whose targets
    are locals, owners of *this and links; with comma the operands of a comma expression; in a condition the operands of
    ! && || == !="""
    e = unparen(e)
    if e is None:
        return None
    k = e["k"]
    if k == "BinaryOperator" and e.get("op") == "=":
        lhs = unparen(kids(e)[0])
        r = None
        if lhs is not None and lhs["k"] == "DeclRefExpr":
            pass
        elif lhs is not None and lhs["k"] == "MemberExpr" and lhs.get("member") in CHAINF and kids(lhs):
            base = unparen(kids(lhs)[0])
            if lhs.get("member") in B.OWNERS and (base is None or base["k"] != "This"):
                return e                               # an owner reached through another name of the tree
            r = opaque_effect(fn, base, callees)
        elif chain_lvalue(lhs):
            return e
        else:
            r = opaque_effect(fn, lhs, callees)
        return r or hidden_effect(fn, kids(e)[1], False, comma, callees)
    if k == "BinaryOperator" and e.get("op") == "," and comma:
        return hidden_effect(fn, kids(e)[0], False, True, callees) or hidden_effect(fn, kids(e)[1], cond, True, callees)
    if cond and k == "UnaryOperator" and e.get("op") == "!":
        return hidden_effect(fn, kids(e)[0], True, comma, callees)
    if cond and k == "BinaryOperator" and e.get("op") in ("&&", "||"):
        return hidden_effect(fn, kids(e)[0], True, comma, callees) or hidden_effect(fn, kids(e)[1], True, comma, callees)
    if cond and k == "BinaryOperator" and e.get("op") in ("==", "!="):
        return hidden_effect(fn, kids(e)[0], False, comma, callees) or hidden_effect(fn, kids(e)[1], False, comma, callees)
    return opaque_effect(fn, e, callees)


def involved_conditional(e):
    """a conditional operator in e that selects between chain pointers / node pointers (the innermost one first when the
    condition of one contains another)"""
    for z in walk(e):
        if z["k"] == "ConditionalOperator" and len(kids(z)) == 3 and (node_ptr_type(z.get("ty")) or mentions_member(z, *CHAINF)):
            inner = involved_conditional(kids(z)[0])
            return inner if inner is not None else z
    return None


class RootShape(B.Shape):
    """alias model of the root-collapse paths: the children of the old root are symbols child<i>; reading through a freed
    node is a problem"""

    def __init__(self, fn, tree=None):
        B.Shape.__init__(self, fn, tree=tree)
        self.freed = set()

    def ev(self, e, st):
        e0 = strip_casts(e)
        ip = match.index_parts(e0) if e0 is not None else None
        if ip:
            f = match.field_of(ip[0])
            if f and f[1] == "childid":
                base = self.ev(f[0], st)
                if base in self.freed:
                    st.problems.append("line %s: %s is read after the node was freed" % (e0.get("l"), dtable.describe(e0)))
                if base == "curr":
                    c = const_int(ip[1])
                    return "child%d" % c if c is not None else "child?"
                return None
        return B.Shape.ev(self, e, st)


def check_root_collapse(ck, tree):
    for name in ("erase_one_descend", "erase_iter_descend"):
        guarded(ck, "ROOT-COLLAPSE", lambda: _one_check_root_collapse(ck, tree, name))


def _one_check_root_collapse(ck, tree, name):
    fn = tree.one(name)
    roles = B.Roles(fn)
    for region in B.find_underflow_ifs(fn):
        rec = [z for z in walk(kids(region)[0]) if is_call(z, "is_underflow")][0]
        kind = "leaf" if "LeafNode" in rec["callee"]["record"] else "inner"
        ua = B.underflow_atomize(roles)

        def atomize(n, run):
            r = ua(n, run)
            if r is not None:
                return r
            n1 = strip_casts(n)
            if is_call(n1, "is_underflow"):
                return ("uf",), False
            return opaque_atom(n)
        leaves = dtable.explore(region, atomize, fn)
        sig2 = "%s:root-%s" % (name, kind)
        found = 0
        verdict = None
        for lf in leaves:
            v = lf["val"]
            if not (v.get(("null", B.P_LEFT)) and v.get(("null", B.P_RIGHT))):
                continue
            found += 1
            verdict = verdict or root_path(tree, fn, roles, kind, region, lf)
        if not found:
            raise ir.AnalysisBroken("%s: no path for the root case in the %s region" % (fn.full, kind))
        if verdict:
            ck.violation("ROOT-COLLAPSE", fn.qname, sig2, verdict, fn.nloc(region))
        else:
            ck.ok("ROOT-COLLAPSE", tree.where(fn, kind), "freed once, owners redirected, returns")


def root_path(tree, fn, roles, kind, region, lf):
    """evaluates one path on which the node has no neighbours (it is the root); -> message of a contradiction or None"""
    sh = RootShape(fn, tree=tree)
    st = B.ShapeState()
    for i, p in enumerate(fn.params):
        if i == B.P_CURR:
            st.env[p["did"]] = "curr"
            st.null["curr"] = False
    for did, init in roles.inits.items():          # typed copies of curr declared before the region
        if roles.param_of(init) == B.P_CURR:
            st.env[did] = "curr"
    st.tf["root_"] = "curr"
    if kind == "leaf":
        st.tf["head_leaf_"] = st.tf["tail_leaf_"] = "curr"     # the only leaf is both ends of the chain
    freed = []
    for i, what, root in path_roots(lf):
        if what == "loop":
            if mentions_member(root, *(B.OWNERS + B.LINKS)) or any(is_call(z, "free_node") for z in walk(root)):
                und(fn, root, "loop on the root-collapse path")
            continue
        if what == "decl":
            init = kids(root)[0] if kids(root) else None
            if init is not None:
                h = hidden_effect(fn, init, callees=False)
                if h is not None:
                    und(fn, h, "%s may change an owner or a node pointer on the root-collapse path and is not executed by the alias model"
                        % dtable.describe(h))
                val = sh.ev(init, st)
                if val is not None or "*" in (root.get("ty") or ""):
                    st.env[root["did"]] = val if val is not None else "unknown:%s" % root.get("name")
            continue
        e = root
        # closed world: a store to an owner / node pointer in a form the model skips (std::tie, std::exchange, a conditional
        # lvalue, a struct field ...) must not be read as 'the owner keeps its value'
        h = hidden_effect(fn, e, callees=False)
        if h is not None:
            und(fn, h, "%s may change an owner or a node pointer on the root-collapse path and is not executed by the alias model"
                % dtable.describe(h))
        if sh.freed and any(is_call(z, *B.REBAL) for z in walk(e)):
            z = [z for z in walk(e) if is_call(z, *B.REBAL)][0]
            return "execution continues with the freed root: %s() is called at line %s" % (z["callee"]["name"], z.get("l"))
        for z in walk(e):
            if own_call(tree, z) is not None and not is_call(z, "free_node", *B.REBAL):
                cal = own_call(tree, z)
                if reaches(tree, cal, lambda q: is_call(q, "free_node") or
                           (q["k"] == "MemberExpr" and q.get("member") in B.OWNERS and match.this_field(q))):
                    und(fn, z, "helper %s() on the root-collapse path touches the owners / frees nodes" % cal.name)
        fr = [z for z in walk(e) if is_call(z, "free_node")]
        if fr:
            sym = sh.ev(kids(fr[0])[1], st)
            freed.append(sym)
            sh.freed.add(sym)
            continue
        # use of the freed root after the free
        if sh.freed:
            for z in walk(e):
                if z["k"] == "MemberExpr" and z.get("arrow") and kids(z) and strip_casts(kids(z)[0])["k"] != "This":
                    if sh.ev(kids(z)[0], st) in sh.freed:
                        return "execution continues with the freed root: %s at line %s" % (dtable.describe(z), z.get("l"))
                if is_call(z) and not is_call(z, "free_node"):
                    for a in kids(z):
                        if "*" in (strip_casts(a).get("ty") or "") and strip_casts(a)["k"] == "DeclRefExpr" and sh.ev(a, st) in sh.freed:
                            return "execution continues with the freed root: it is passed to %s() at line %s" % (z["callee"]["name"], z.get("l"))
        if what == "ret":
            continue
        sh.ev(e, st)
    if st.problems:
        return st.problems[0]

    def vague(x):
        return x is None or x == "unknown" or str(x).startswith(("unknown:", "var:", "child?"))
    if any(vague(x) for x in freed):
        und(fn, region, "the node freed on the root path is not understood (%s)" % freed)
    if freed != ["curr"]:
        return "the %s root that ran empty must be freed exactly once (freed: %s)" % (kind, freed)
    stop = lf["stop"][0]
    if stop != "return":
        # the region ends; what follows it must be the function's return
        holder = fn.parent(region)
        sibs = kids(holder) if holder is not None else []
        nxt = [s for i, s in enumerate(sibs) if i > 0 and sibs[i - 1] is region]
        if stop != "end" or not nxt or nxt[0] is None or nxt[0]["k"] != "ReturnStmt" or \
                any(z["k"] == "MemberExpr" and z.get("arrow") for z in walk(nxt[0])):
            und(fn, region, "the root path leaves the region without returning (%s); what follows is not evaluated" % stop)
    owners = {o: st.tf.get(o) for o in B.OWNERS}
    if kind == "leaf":
        stale = [o for o in B.OWNERS if owners[o] == "curr"]
        if stale:
            return ("after freeing the last leaf root_/head_leaf_/tail_leaf_ must all be null; %s still point%s to the freed leaf"
                    % (", ".join(stale), "s" if len(stale) == 1 else ""))
        if any(owners[o] != "NULL" for o in B.OWNERS):
            und(fn, region, "owners after the root leaf was freed: %s" % owners)
        return None
    if owners["root_"] in ("curr", "NULL"):
        return "the only child must become the root before the old root is freed (root_ is %s afterwards)" % \
            ("the freed node" if owners["root_"] == "curr" else "null")
    if owners["root_"] != "child0":
        if str(owners["root_"]).startswith("child") and owners["root_"] != "child?":
            return "the only child of the emptied root is childid[0]; root_ becomes %s" % owners["root_"]
        und(fn, region, "root_ after the collapse is %s" % owners["root_"])
    return None


# ------------------------------------------------------------------ clear / destructor / assignment
def calls_reaching(tree, fn, name):
    """calls on *this in fn that are name() or a helper that (transitively) calls name()"""
    out = []
    for z in fn.nodes():
        cal = own_call(tree, z)
        if cal is None:
            continue
        if is_call(z, name):
            out.append(z)
        elif cal.did != fn.did and reaches(tree, cal, lambda q: is_call(q, name) and own_call(tree, q) is not None):
            out.append(z)
    return out


STATS_FIELDS = ("size", "leaves", "inner_nodes")


def check_clear(ck, tree):
    guarded(ck, "CLEAR-RESET", lambda: check_clear_fn(ck, tree))
    guarded(ck, "CLEAR-RESET", lambda: check_dtor(ck, tree))
    for name in ("clear_recursive", "copy_recursive"):
        guarded(ck, "CHILD-RANGE", lambda: check_child_loops(ck, tree, name))


def check_clear_fn(ck, tree):
    fn = tree.one("clear")

    def atomize(n, run):
        pt = match.ptr_truth(n)
        if pt is not None and match.this_field(pt) == "root_":
            return "root", False
        b = match.binop(n, ("!=", "=="))
        if b:
            for x, y in ((b[1], b[2]), (b[2], b[1])):
                if match.this_field(x) == "root_" and B.is_null(y):
                    return "root", b[0] == "=="
        return None
    leaves = dtable.explore(fn.body, with_bool_cmp(atomize), fn)
    for v, lf in dtable.table(leaves, None, ["root"]):
        # evaluation of the path on the alias model: R is the root, H/T the ends of the leaf chain
        sh = B.Shape(fn, tree=tree)
        st = B.ShapeState()
        st.tf.update({"root_": "R" if v["root"] else "NULL", "head_leaf_": "H" if v["root"] else "NULL",
                      "tail_leaf_": "T" if v["root"] else "NULL"})
        st.null["R"] = False
        seq, zeroed, unknown = [], set(), []
        flags = {"reset": False}

        def do_decl(v):
            init = kids(v)[0] if kids(v) else None
            if init is not None:
                val = sh.ev(init, st)
                if val is not None or "*" in (v.get("ty") or ""):
                    st.env[v["did"]] = val if val is not None else "unknown:%s" % v.get("name")

        def do_expr(root, depth=0):
            e = strip_casts(root)
            if is_call(e, "clear_recursive", "free_node") and own_call(tree, e) is not None:
                seq.append((e["callee"]["name"], sh.ev(call_args(e)[0], st)))
                return
            handled = False
            cur = e
            while True:
                b = match.binop(cur, ("=",))
                if not b:
                    break
                tf = match.this_field(b[1])
                if tf == "stats_":
                    flags["reset"] = handled = True
                elif stats_field(b[1]):
                    w = counter_write(cur) if cur["k"] == "BinaryOperator" else None
                    if w and w[1] == "zero":
                        zeroed.add(w[0])
                        handled = True
                elif tf in B.OWNERS or ref_of(b[1]) is not None:
                    handled = True
                cur = strip_casts(b[2])
            if handled:
                sh.ev(e, st)                    # owner / local assignments (chains included)
                return
            if own_call(tree, e) is not None and depth < 2:
                cal = own_call(tree, e)
                if cal.did != fn.did and straight_line(cal):
                    # a step of clear() moved into a private helper: executed in place
                    for p, a in zip(cal.params, call_args(e)):
                        val = sh.ev(a, st)
                        if val is not None or "*" in (p.get("ty") or ""):
                            st.env[p["did"]] = val if val is not None else "unknown:%s" % p.get("name")
                    for s2 in kids(cal.body):
                        if s2 is None or s2["k"] in ("ReturnStmt", "NullStmt"):
                            continue
                        if s2["k"] == "DeclStmt":
                            for v2 in kids(s2):
                                do_decl(v2)
                        else:
                            do_expr(s2, depth + 1)
                    return
            if any(own_call(tree, z) is not None for z in walk(e)) or mentions_member(e, *(B.OWNERS + ("stats_",))) or \
                    foreign_reaching(tree, fn, walk(e), lambda q: is_call(q, "clear_recursive", "free_node") or
                                     (q["k"] == "MemberExpr" and q.get("member") in B.OWNERS + ("stats_",))):
                # asserts on stats_ are compiled out; anything else that reaches the owners is not understood
                unknown.append(e)
        for i, what, root in path_roots(lf):
            if what == "loop":
                if mentions_member(root, *(B.OWNERS + ("stats_",))) or any(own_call(tree, z) is not None for z in walk(root)):
                    und(fn, root, "loop in clear()")
            elif what == "decl":
                do_decl(root)
            elif what == "expr":
                do_expr(root)
        reset = flags["reset"]
        frees = [x for x in seq if x[0] == "free_node"]
        recs = [x for x in seq if x[0] == "clear_recursive"]
        if not v["root"]:
            if seq:
                ck.violation("CLEAR-RESET", fn.qname, "empty", "clear() of an empty tree touches nodes: %s" % seq, fn.loc)
            else:
                ck.ok("CLEAR-RESET", tree.where(fn, "empty"), "nothing to release")
            continue
        owners = {o: st.tf.get(o) for o in B.OWNERS}
        msg = None
        vague = [x for x in seq if x[1] is None or str(x[1]).startswith(("unknown", "var:"))]
        if vague:
            und(fn, None, "the node passed to %s() in clear() is not understood" % vague[0][0])
        if [x for x in seq if x[1] != "R"]:
            x = [x for x in seq if x[1] != "R"][0]
            msg = "%s() is applied to %s instead of the root" % (x[0], "a null pointer (root_ was already reset)" if x[1] == "NULL" else x[1])
        elif len(frees) > 1 or len(recs) > 1:
            msg = "the root is %s twice" % ("freed" if len(frees) > 1 else "cleared")
        elif frees and recs and seq.index(frees[0]) < seq.index(recs[0]):
            msg = "the root is freed before its children are released"
        elif [o for o in B.OWNERS if owners[o] in ("R", "H", "T")]:
            if unknown:
                und(fn, unknown[0], "owners after clear() are %s, and %s is not understood" % (owners, dtable.describe(unknown[0])))
            msg = "%s still points into the released tree" % ", ".join(o for o in B.OWNERS if owners[o] in ("R", "H", "T"))
        elif not recs or not frees:
            if unknown:
                und(fn, unknown[0], "%s not found in clear(), and %s is not understood"
                    % ("clear_recursive(root_)" if not recs else "free_node(root_)", dtable.describe(unknown[0])))
            msg = "missing %s" % ("clear_recursive(root_)" if not recs else "free_node(root_)")
        elif any(owners[o] != "NULL" for o in B.OWNERS):
            und(fn, None, "owners after clear(): %s" % owners)
        elif not (reset or set(STATS_FIELDS) <= zeroed):
            if unknown:
                und(fn, unknown[0], "stats_ reset not found in clear(), and %s is not understood" % dtable.describe(unknown[0]))
            msg = "stats_ is not reset (zeroed fields: %s)" % sorted(zeroed)
        if msg:
            ck.violation("CLEAR-RESET", fn.qname, "nonempty", "clear() must release the children, then the root, then null root_/head_leaf_/"
                         "tail_leaf_ and reset stats_; %s" % msg, fn.loc)
        else:
            ck.ok("CLEAR-RESET", tree.where(fn, "nonempty"), "clear_recursive(root_), free_node(root_), owners nulled, stats_ reset")


def check_dtor(ck, tree):
    dt = [f for f in tree.fns if f.kind == "dtor" and f.record == BT]
    if not dt:
        raise ir.AnalysisBroken("~BTree not instantiated")
    if calls_reaching(tree, dt[0], "clear"):
        ck.ok("CLEAR-RESET", tree.where(dt[0]), "calls clear()")
    else:
        other = [z for z in dt[0].nodes() if own_call(tree, z) is not None or is_call(z, "free_node", "clear_recursive")] + \
            foreign_reaching(tree, dt[0], dt[0].nodes(), lambda q: is_call(q, "clear", "free_node", "clear_recursive"))
        if other:
            und(dt[0], other[0], "the destructor does not call clear(); what %s does is not followed" % dtable.describe(other[0]))
        ck.violation("CLEAR-RESET", dt[0].qname, "dtor", "the destructor does not release the nodes (no clear())", dt[0].loc)


def check_child_loops(ck, tree, name):
    """clear_recursive and copy_recursive visit all slotuse + 1 children"""
    fn = tree.one(name)
    loc = Locals(fn)

    def over_children(l):
        """the loop names childid itself, or runs a local cursor that was set up from childid before the loop"""
        if mentions_member(l, "childid"):
            return True
        return any(z["k"] == "DeclRefExpr" and z["ref"].get("kind") == "local" and z["ref"]["id"] in loc.inits and
                   ptr_to_ptr(z.get("ty")) and mentions_member(loc.expand(loc.inits[z["ref"]["id"]]), "childid") for z in walk(l))
    loops = [l for l in match.loops_in(fn.body) if over_children(l)]
    if len(loops) != 1:
        raise ir.AnalysisBroken("%s: child loop not found" % fn.full)
    guarded(ck, "CHILD-RANGE", lambda: check_child_loop(ck, tree, fn, loops[0]))
    if name == "clear_recursive":
        guarded(ck, "CLEAR-RESET", lambda: check_clear_children(ck, tree, fn, loops[0]))


def step_of(z, did):
    """amount by which z advances the local did (++v, v++, v += c, v = v + c), None if z is no such step"""
    u = match.unop(z, ("++", "--"))
    if u and ref_of(u[1]) == did:
        return 1 if u[0] == "++" else -1
    b = match.binop(z, ("+=", "-=", "="))
    if b and ref_of(b[1]) == did:
        if b[0] in ("+=", "-="):
            c = const_int(b[2])
            return None if c is None else (c if b[0] == "+=" else -c)
        r = match.binop(strip_casts(b[2]), ("+", "-"))
        if r and ref_of(r[1]) == did and const_int(r[2]) is not None:
            return const_int(r[2]) if r[0] == "+" else -const_int(r[2])
        if r and r[0] == "+" and ref_of(r[2]) == did and const_int(r[1]) is not None:
            return const_int(r[1])
    return None


def writes_local(z, did):
    if z["k"] in ("BinaryOperator", "CompoundAssignOperator", "CXXOperatorCallExpr"):
        b = match.binop(z)
        if b and b[0].endswith("=") and b[0] not in ("==", "!=", "<=", ">=") and ref_of(b[1]) == did:
            return True
    u = match.unop(z, ("++", "--")) if z["k"] in ("UnaryOperator", "CXXOperatorCallExpr") else None
    if u and ref_of(u[1]) == did:
        return True
    return z["k"] == "UnaryOperator" and z.get("op") == "&" and ref_of(kids(z)[0]) == did


def ptr_to_ptr(ty):
    return (ty or "").replace("const", "").replace(" ", "").endswith("**")


def check_child_loop(ck, tree, fn, loop):
    """the loop is run on a small model: for slotuse = 0..4 it must touch exactly the children 0..slotuse.  The model knows
    for/while loops (test first) and do-while loops (body first), any number of cursors that advance in lock-step (an index,
    or pointers into the child arrays, which the model places at address 0), each advanced once per iteration by a constant:
    in the increment part, by the last statement of the body, or by a ++/-- inside the loop condition."""
    loc = Locals(fn)
    init, cond, inc, body = match.loop_parts(loop)
    if cond is None:
        und(fn, loop, "child loop without a condition")
    do_form = loop["k"] == "DoStmt"
    jumps = [z for z in walk(body) if z["k"] in ("BreakStmt", "ReturnStmt", "GotoStmt", "CXXThrowExpr")]
    if jumps:
        und(fn, jumps[0], "the child loop is left from inside its body; the model does not follow that")

    def init_expr(var):
        """(start expression of the local, it is set in the loop's own init part)"""
        if init is not None:
            for z in walk(init):
                if z["k"] == "VarDecl" and z.get("did") == var and kids(z) and kids(z)[0] is not None:
                    return kids(z)[0], True
                b = match.binop(z, ("=",)) if z["k"] == "BinaryOperator" else None
                if b and ref_of(b[1]) == var:
                    return b[2], True
        return loc.inits.get(var), False
    subs = []
    for x in walk(body):
        ip = match.index_parts(x) if x["k"] in ("ArraySubscriptExpr", "CXXOperatorCallExpr") else None
        if ip and match.field_of(ip[0]) and match.field_of(ip[0])[1] == "childid":
            subs.append(ip[1])
        # pointer form: *c with c running over the child array (the model places childid at address 0)
        dp = match.deref_of(x) if x["k"] == "UnaryOperator" else None
        if dp is not None and ref_of(dp) is not None and ptr_to_ptr(strip_casts(dp).get("ty")):
            start_e = init_expr(ref_of(dp))[0]
            if start_e is not None and mentions_member(loc.expand(start_e), "childid"):
                subs.append(dp)
    if not subs:
        und(fn, loop, "the loop does not index childid[] directly")
    # the induction variables: the locals that change, in the condition and in the subscripts
    names = {}

    def unstable(e):
        out = set()
        for z in walk(loc.expand(e)):
            if z["k"] == "DeclRefExpr" and z["ref"].get("kind") == "local" and not loc.stable(z["ref"]["id"]):
                out.add(z["ref"]["id"])
                names[z["ref"]["id"]] = z["ref"]["name"]
        return out
    cvars = unstable(cond)
    svars = [unstable(e) for e in subs]
    if not cvars or any(len(v) != 1 for v in svars):
        und(fn, loop, "the induction variable of the child loop is not identified")
    ivars = sorted(cvars.union(*svars))
    if len(set(names[v] for v in ivars)) != len(ivars) or any(names[v] in ("slotuse", "childid") for v in ivars):
        und(fn, loop, "the names of the induction variables clash on the model")
    # start values (they may depend on the fill: a loop that runs downwards)
    start = {}
    for var in ivars:
        e, own = init_expr(var)
        if e is None:
            und(fn, loop, "start value of the child loop is not understood")
        if not own:
            decl = [z for z in fn.nodes() if z["k"] == "VarDecl" and z.get("did") == var]
            if not decl or any(q is decl[0] for q in walk(loop)):
                und(fn, loop, "an induction variable is declared inside the loop")
            outside = [z for z in fn.nodes() if writes_local(z, var) and not any(q is z for q in walk(loop))]
            if outside:
                und(fn, outside[0], "the induction variable is written outside the loop")
            par = fn.parent(loop)
            while par is not None:
                if par["k"] in ("WhileStmt", "ForStmt", "DoStmt", "CXXForRangeStmt", "SwitchStmt", "LabelStmt"):
                    und(fn, loop, "the child loop is nested in another loop and its start value is set outside")
                par = fn.parent(par)
        try:
            start[var] = [B.eval_int(loc.expand(e), {"slotuse": S, "childid": 0}) for S in range(0, 5)]
        except Und:
            und(fn, loop, "start value of the child loop is not understood")
        if any(x is None for x in start[var]):
            und(fn, loop, "start value of the child loop is not understood")
    # the steps: one update per variable and iteration, after every use of the index
    step, where = {}, {}
    condx = cond
    stmts = [s for s in (kids(body) if body is not None and body["k"] == "CompoundStmt" else [body]) if s is not None]
    for var in ivars:
        w_inc = [z for z in walk(inc) if writes_local(z, var)] if inc is not None else []
        w_body = [z for z in walk(body) if writes_local(z, var)]
        w_cond = [z for z in walk(cond) if writes_local(z, var)]
        if len(w_inc) + len(w_body) + len(w_cond) != 1:
            und(fn, loop, "the induction variable is not updated exactly once per iteration")
        if w_inc:
            z, where[var] = w_inc[0], "end"
        elif w_body:
            z, where[var] = w_body[0], "end"
            at = [i for i, s in enumerate(stmts) if any(q is z for q in walk(s))]
            head = stmts[:at[0] + 1] if at else []
            tail = stmts[at[0]:] if at else []
            plain = lambda ss: ss and not any(s["k"] in CONTROL or s["k"].endswith("Stmt") for s in ss)      # noqa: E731
            uses = lambda ss: any(any(q is x for s in ss for q in walk(s)) for x in subs)                    # noqa: E731
            if plain(head) and not uses(head):
                where[var] = "begin"             # advanced by the first statements of the body, before any use of the index
            elif not plain(tail):
                und(fn, loop, "the induction variable must be advanced once, by the first or the last statements of the loop body")
            elif uses(tail):
                und(fn, loop, "the induction variable is advanced between two uses of the index in one iteration")
            if any(q["k"] == "ContinueStmt" for q in walk(body)):
                und(fn, loop, "continue in a child loop that advances its index in the body")
        else:
            z = w_cond[0]
            u = match.unop(z, ("++", "--")) if z["k"] == "UnaryOperator" else None
            uses = [q for q in walk(cond) if q["k"] == "DeclRefExpr" and q["ref"]["id"] == var]
            if u is None or len(uses) != 1 or any(q["k"] in ("ConditionalOperator",) or (q["k"] == "BinaryOperator" and q.get("op") in ("&&", "||", ","))
                                                  for q in walk(cond)):
                und(fn, loop, "the induction variable is advanced inside the loop condition in a form that is not understood")
            where[var] = "post" if u[2] else "pre"
            condx = replace_node(condx, z, u[1])
        step[var] = step_of(z, var)
        if step[var] is None or step[var] == 0:
            und(fn, loop, "step of the child loop is not a constant")
    condx = loc.expand(condx)
    subx = [loc.expand(e) for e in subs]
    for S in range(0, 5):
        vals = {v: start[v][S] for v in ivars}
        visited, first = [], True

        def env():
            e = {"slotuse": S, "childid": 0}
            e.update({names[v]: vals[v] for v in ivars})
            return e
        for _ in range(40):
            if not (do_form and first):
                for v in ivars:
                    if where[v] == "pre":
                        vals[v] += step[v]
                go = B.eval_int(condx, env())
                for v in ivars:
                    if where[v] == "post":
                        vals[v] += step[v]
                if not go:
                    break
            first = False
            for v in ivars:
                if where[v] == "begin":
                    vals[v] += step[v]
            visited.append(sorted({B.eval_int(e, env()) for e in subx}))
            for v in ivars:
                if where[v] == "end":
                    vals[v] += step[v]
        else:
            und(fn, loop, "child loop does not terminate on the model slotuse=%d" % S)
        if sorted(visited) != [[c] for c in range(S + 1)]:           # each child once; the order is free
            ck.violation("CHILD-RANGE", fn.qname, fn.name, "an inner node with slotuse separators has slotuse + 1 children; for slotuse = %d "
                         "the loop (%s) touches the children %s" % (S, dtable.describe(cond), [x for v in visited for x in v]), fn.nloc(loop))
            return
    ck.ok("CHILD-RANGE", tree.where(fn), "children 0 .. slotuse inclusive")


def check_clear_children(ck, tree, fn, loop):
    loc = Locals(fn)
    g = cfgm.CFG(fn)
    body = match.loop_parts(loop)[3]
    rec = [z for z in walk(body) if is_call(z, "clear_recursive")]
    fr = [z for z in walk(body) if is_call(z, "free_node")]
    helpers = [z for z in walk(body) if own_call(tree, z) is not None and not is_call(z, "clear_recursive", "free_node")] + \
        foreign_reaching(tree, fn, walk(body), lambda q: is_call(q, "clear_recursive", "free_node"))
    msg = None
    if not rec or not fr:
        if helpers:
            und(fn, helpers[0], "per-child release not found; %s is not followed" % dtable.describe(helpers[0]))
        msg = "a child is %s" % ("never cleared recursively" if not rec else "never freed")
    elif len(rec) > 1 or len(fr) > 1:
        und(fn, loop, "several clear_recursive()/free_node() calls per child")
    else:
        pr, pf = g.pos_deep(rec[0]), g.pos_deep(fr[0])
        a, b = loc.expand(kids(rec[0])[1]), loc.expand(kids(fr[0])[1])
        if pr is None or pf is None:
            und(fn, loop, "per-child calls not found in the CFG")
        if g.dominates(pf, pr):
            msg = "the child is freed before its own children are released"
        elif not g.dominates(pr, pf):
            und(fn, loop, "clear_recursive(c) does not dominate free_node(c)")
        elif not match.same_expr(a, b):
            ia, ib = match.index_parts(a), match.index_parts(b)
            if ia and ib and match.same_expr(ia[0], ib[0]):
                msg = "clear_recursive(%s) but free_node(%s)" % (dtable.describe(a), dtable.describe(b))
            else:
                und(fn, loop, "clear_recursive(%s) / free_node(%s): not recognisably the same child" % (dtable.describe(a), dtable.describe(b)))
    if msg:
        ck.violation("CLEAR-RESET", fn.qname, "recursive", "each child must be cleared recursively and then freed, once: %s" % msg, fn.nloc(loop))
    else:
        ck.ok("CLEAR-RESET", tree.where(fn), "per child: clear_recursive(c) then free_node(c)")


def field_write_nodes(fn, field):
    out = []
    for z in fn.nodes():
        b = match.binop(z, ("=",)) if z["k"] in ("BinaryOperator", "CXXOperatorCallExpr") else None
        if b and match.this_field(b[1]) == field:
            out.append(z)
    return out


def check_assign(ck, tree):
    fn = tree.one("operator=")
    g = cfgm.CFG(fn)
    loc = Locals(fn)
    writes_alloc = lambda q: q["k"] in ("BinaryOperator", "CXXOperatorCallExpr") and match.binop(q, ("=",)) is not None and \
        match.this_field(match.binop(q, ("=",))[1]) == "allocator_"                     # noqa: E731
    clears = calls_reaching(tree, fn, "clear")
    aw = field_write_nodes(fn, "allocator_")
    # a private helper of operator= that takes over the allocator counts as the write
    for z in fn.nodes():
        if own_call(tree, z) is not None and not is_call(z, "clear", "copy_recursive"):
            if reaches(tree, own_call(tree, z), writes_alloc):
                aw.append(z)
    copies = calls_reaching(tree, fn, "copy_recursive")
    foreign = foreign_reaching(tree, fn, fn.nodes(), lambda q: is_call(q, "clear", "clear_recursive", "free_node", "copy_recursive") or
                               writes_alloc(q))
    if foreign:
        und(fn, foreign[0], "%s() releases / copies nodes or replaces allocator_ and is not followed" % foreign[0]["callee"]["name"])
    if not aw or not copies:
        raise ir.AnalysisBroken("%s: allocator_ assignment / copy_recursive not found" % fn.full)
    if not clears:
        inl = [z for z in fn.nodes() if is_call(z, "clear_recursive", "free_node")]
        if inl:
            und(fn, inl[0], "operator= releases nodes without calling clear()")
        ck.violation("ASSIGN-ORDER", fn.qname, "no-clear", "operator= does not release the old nodes before copying", fn.loc)
        return
    pos = lambda z: g.pos_deep(z)                                                         # noqa: E731
    pc = [pos(c) for c in clears]
    pa = [pos(w) for w in aw]
    if any(p is None for p in pc + pa + [pos(c) for c in copies]):
        und(fn, None, "operator=: a call is not found in the CFG")
    # counterexamples are paths of the CFG
    for w in aw:
        if g.path_from_entry_avoiding(pos(w), pc) is not None:
            ck.violation("ASSIGN-ORDER", fn.qname, "allocator-before-clear",
                         "allocator_ is replaced before clear(): the old nodes are then destroyed and deallocated through the *new* allocator, "
                         "not the one that produced them", fn.nloc(w))
            return
    for c in copies:
        p = pos(c)
        if g.path_from_entry_avoiding(p, pc) is not None:
            ck.violation("ASSIGN-ORDER", fn.qname, "copy-before-clear", "copy_recursive() runs while the old nodes are still owned (leak, and the "
                         "new leaves are appended to the old chain)", fn.nloc(c))
            return
        if g.path_from_entry_avoiding(p, pa) is not None or any(g.reachable(p, q) for q in pa):
            ck.violation("ASSIGN-ORDER", fn.qname, "copy-before-allocator", "the copy is allocated before allocator_ is taken over, and will be "
                         "released through a different allocator", fn.nloc(c))
            return
    # the result of copy_recursive becomes the root
    direct = [c for c in copies if is_call(c, "copy_recursive")]
    for c in direct:
        par, below = fn.parent(c), c
        # the value of the call is the value of the enclosing expression: through casts / parentheses, and as an arm of
        # `cond ? copy_recursive(x) : y` (whenever the call runs, the conditional evaluates to its result) or the right
        # operand of a comma
        while par is not None and (
                par["k"] in CASTS + ("ParenExpr", "ExprWithCleanups", "MaterializeTemporaryExpr", "CXXBindTemporaryExpr") or
                (par["k"] == "ConditionalOperator" and len(kids(par)) == 3 and kids(par)[0] is not below) or
                (par["k"] == "BinaryOperator" and par.get("op") == "," and len(kids(par)) == 2 and kids(par)[1] is below)):
            par, below = fn.parent(par), par
        stored = False
        if par is not None:
            b = match.binop(par, ("=",))
            if b and match.this_field(b[1]) == "root_":
                stored = True
            elif par["k"] == "VarDecl" or (b and ref_of(b[1]) is not None):
                did = par.get("did") if par["k"] == "VarDecl" else ref_of(b[1])
                for w in field_write_nodes(fn, "root_"):
                    if ref_of(match.binop(w, ("=",))[2]) == did and g.pos_deep(w) is not None and g.reachable(pos(c), g.pos_deep(w)):
                        stored = True
            elif par["k"] in ("CompoundStmt", "IfStmt", "ForStmt", "WhileStmt") and not (par["k"] == "IfStmt" and kids(par)[0] is c):
                ck.violation("ASSIGN-ORDER", fn.qname, "root", "the copied tree is not stored in root_ (the result of copy_recursive() is dropped)",
                             fn.nloc(c))
                return
        if not stored:
            und(fn, c, "where the result of copy_recursive() goes is not understood")
    ck.ok("ASSIGN-ORDER", tree.where(fn), "clear() dominates allocator_ = ..., which dominates root_ = copy_recursive(...)")
    # every other writer of allocator_ is a constructor or swap (or a helper used by them only)
    cm = callers_map(tree)
    for f in tree.fns:
        if f.record != BT or f.kind == "ctor" or f.name in ("operator=", "swap") or f.body is None:
            continue
        if field_write_nodes(f, "allocator_") and not (f.kind != "ctor" and owned_by_kinds(tree, cm, f)):
            ck.violation("ASSIGN-ORDER", f.qname, "allocator-writer", "%s() replaces allocator_ while nodes may be owned" % f.name, f.loc)


def owned_by_kinds(tree, cm, fn, seen=None):
    """every call chain into fn comes through a constructor, operator= or swap of the tree"""
    if fn.record == BT and (fn.kind == "ctor" or fn.name in ("operator=", "swap")):
        return True
    seen = set() if seen is None else seen
    if fn.did in seen:
        return True
    seen.add(fn.did)
    cs = cm.get(fn.did, set()) - {fn.did}
    return bool(cs) and all(owned_by_kinds(tree, cm, tree.by_did[c], seen) for c in cs)


def check_swap(ck, tu, tree):
    """swap() is executed on symbolic field values: afterwards every data member of *this holds the other tree's value and
    vice versa"""
    fn = tree.one("swap")
    rec = [r for r in tu.records if r["qname"] == BT and r.get("targs") == tree.targs]
    if not rec:
        rec = [r for r in tu.records if r["qname"] == BT]
    fields = [f["name"] for f in rec[0]["fields"]]
    other = fn.params[0]["did"]
    state = {}

    def lv(e):
        e = strip_casts(e)
        if e is None:
            return None
        if is_call(e, "move", "forward", "as_const") and len(kids(e)) == 1:
            return lv(kids(e)[0])
        tf = match.this_field(e)
        if tf:
            return ("this", tf)
        f = match.field_of(e)
        if f and ref_of(f[0]) == other:
            return ("other", f[1])
        if e["k"] == "DeclRefExpr" and e["ref"].get("kind") == "local":
            return ("local", e["ref"]["id"])
        return None

    def get(key):
        return state.get(key, key if key[0] != "local" else None)

    def rv(e):
        e = match.strip_conv(e)
        k = lv(e)
        return get(k) if k is not None else None
    leaves = dtable.explore(fn.body, lambda n, run: None, fn)
    unknown = []
    for lf in leaves:
        state.clear()
        for i, what, root in path_roots(lf):
            if what == "loop":
                und(fn, root, "loop in swap()")
            if what == "decl":
                init = kids(root)[0] if kids(root) else None
                state[("local", root["did"])] = rv(init) if init is not None else None
                if init is not None and rv(init) is None and (mentions_ref(init, fn.params[0]["name"]) or any(z["k"] == "This" for z in walk(init))):
                    unknown.append(root)
                continue
            if what == "ret":
                continue
            e = strip_casts(root)
            if is_call(e, "swap", "iter_swap") and len(kids(e)) == 2 and lv(kids(e)[0]) and lv(kids(e)[1]):
                a, b = lv(kids(e)[0]), lv(kids(e)[1])
                state[a], state[b] = get(b), get(a)
                continue
            b = match.binop(e, ("=",))
            if b and lv(b[1]):
                v = rv(b[2])
                if v is None:
                    ex = match.strip_conv(b[2])
                    if is_call(ex, "exchange") and len(kids(ex)) == 2 and lv(kids(ex)[0]):
                        v = get(lv(kids(ex)[0]))
                        state[lv(kids(ex)[0])] = rv(kids(ex)[1])
                state[lv(b[1])] = v
                continue
            if any(z["k"] == "This" for z in walk(e)) or ref_of(e) == other or any(ref_of(z) == other for z in walk(e)) or \
                    any(is_call(z) and fn.tu.by_did.get(z["callee"].get("did")) is not None and
                        fn.tu.by_did[z["callee"]["did"]].body is not None for z in walk(e)):
                unknown.append(e)         # (a closure that captured this / the other tree shows neither in its call)
        missing, vague = [], []
        for f in fields:
            a, b = get(("this", f)), get(("other", f))
            if a == ("other", f) and b == ("this", f):
                continue
            if a in (("this", f),) or b in (("other", f),):
                missing.append(f)           # evaluated: the member keeps its own value on at least one side
            else:
                vague.append(f)
        if (missing or vague) and unknown:
            und(fn, unknown[0], "swap(): %s is not understood (members not seen exchanged: %s)" % (dtable.describe(unknown[0]), missing + vague))
        if vague and not missing:
            und(fn, None, "swap(): the final values of %s are not understood" % vague)
        if missing:
            ck.violation("SWAP-COMPLETE", fn.qname, "swap:" + ",".join(missing), "swap() leaves %s behind: the two trees then own each other's nodes "
                         "with the wrong bookkeeping/allocator" % missing, fn.loc)
            return
    ck.ok("SWAP-COMPLETE", tree.where(fn), "all %d data members exchanged" % len(fields))


# ------------------------------------------------------------------ size accounting
def check_size(ck, tree):
    for name, want in (("insert_start", +1), ("erase_one", -1), ("erase", -1)):
        for fn in tree.find(name):
            if name == "erase" and not any(is_call(z, "erase_iter_descend") for z in fn.nodes()):
                continue       # erase(key) loops over erase_one
            guarded(ck, "SIZE-PAIR", lambda: check_size_fn(ck, tree, fn, name, want))


def replace_node(n, target, repl):
    """copy of the tree n in which the node target (by identity) is replaced"""
    if n is target:
        return repl
    if n is None or "ch" not in n:
        return n
    out = dict(n)
    out["ch"] = [replace_node(c, target, repl) for c in n["ch"]]
    return out


def counter_amount(z):
    """the amount operand of a counter update f += e / f -= e / f = f + e / f = e + f / f = f - e (node, not value)"""
    b = match.binop(z, ("=", "+=", "-=")) if z["k"] in ("BinaryOperator", "CompoundAssignOperator") else None
    if not b or not stats_field(b[1]):
        return None
    if b[0] in ("+=", "-="):
        return b[2]
    r = match.binop(strip_casts(b[2]), ("+", "-"))
    if r and strip_casts(b[2])["k"] == "BinaryOperator":
        if stats_field(r[1]) == stats_field(b[1]):
            return r[2]
        if r[0] == "+" and stats_field(r[2]) == stats_field(b[1]):
            return r[1]
    return None


def split_counter_conditionals(body, field, tree=None):
    """`stats_.<field> += c ? a : b;` is presented to the path exploration as `if (c) stats_.<field> += a; else stats_.<field> += b;`
    and `stats_.<field> += <bool b>;` as `if (b) ... += 1; else ... += 0;` (the lvalue this->stats_.<field> has no side effects
    and the condition is evaluated exactly once in both forms).  Only whole expression statements are rewritten."""
    counter = [0]

    def fresh():
        counter[0] -= 1
        return counter[0] - 5000

    def top_write(stmt):
        e = stmt
        while e is not None and e["k"] in CASTS + ("ExprWithCleanups", "ParenExpr") and kids(e):
            e = kids(e)[0]
        if e is None or e["k"] not in ("BinaryOperator", "CompoundAssignOperator"):
            return None
        w = counter_write(e)
        return e if w and w[0] == field and w[1] in ("+", "-") and w[2] is None else None

    def quiet(c):
        """the condition moves out of the statement the path evaluation looks at: it must not do anything itself"""
        for x in walk(c):
            if x["k"] in ("UnaryOperator", "BinaryOperator", "CompoundAssignOperator", "CXXOperatorCallExpr") and \
                    (x.get("op") in ("++", "--") or ((x.get("op") or "").endswith("=") and x.get("op") not in ("==", "!=", "<=", ">="))):
                return False
            if is_call(x) and (tree is None or (x["callee"].get("did") in tree.by_did and
                                                reaches(tree, tree.by_did[x["callee"]["did"]], lambda q: counter_write(q) is not None))):
                return False
        return True

    def split(stmt, depth=0):
        z = top_write(stmt) if depth < 4 and stmt is not None and not stmt["k"].endswith("Stmt") else None
        amount = counter_amount(z) if z is not None else None
        if amount is None:
            return stmt
        q, through_bool_cast = amount, False
        while q is not None and (q["k"] in CASTS or q["k"] == "ParenExpr") and kids(q):
            inner = kids(q)[0]
            if q["k"] in CASTS and q.get("cast") == "IntegralCast" and inner is not None and \
                    (inner.get("ty") or "").replace("const ", "") == "bool":
                through_bool_cast = True
            q = inner
        if q is None:
            return stmt
        if q["k"] == "ConditionalOperator" and len(kids(q)) == 3 and not through_bool_cast and quiet(kids(q)[0]):
            c, a, b = kids(q)
            return {"k": "IfStmt", "id": fresh(), "l": stmt.get("l"),
                    "ch": [c, split(replace_node(stmt, amount, a), depth + 1), split(replace_node(stmt, amount, b), depth + 1)]}
        if through_bool_cast and (q.get("ty") or "").replace("const ", "") == "bool" and quiet(q):
            lit = lambda v: {"k": "IntegerLiteral", "val": v, "id": fresh(), "l": q.get("l"), "ty": "int"}     # noqa: E731
            return {"k": "IfStmt", "id": fresh(), "l": stmt.get("l"),
                    "ch": [q, replace_node(stmt, amount, lit(1)), replace_node(stmt, amount, lit(0))]}
        return stmt

    def rewrite(n):
        if n is None or "ch" not in n:
            return n
        out = dict(n)
        ch = []
        for c in n["ch"]:
            if n["k"] in ("CompoundStmt", "IfStmt") and not (n["k"] == "IfStmt" and c is n["ch"][0]) and c is not None and \
                    not c["k"].endswith("Stmt"):
                ch.append(split(c))
            else:
                ch.append(rewrite(c))
        out["ch"] = ch
        return out
    return rewrite(body)


def check_size_fn(ck, tree, fn, name, want):
    loc = Locals(fn)
    registry = {}

    def atomize(n, run, name=name, loc=loc, registry=registry):
        n1 = strip_casts(n)
        if name == "insert_start":
            # <pair returned by insert_descend()>.second
            f = match.field_of(n1)
            d = ref_of(f[0]) if f and f[1] == "second" else None
            if d is not None and d in loc.inits and d not in loc.written and \
                    any(is_call(z, "insert_descend") for z in walk(loc.inits[d])):
                return "done", False
        elif is_call(n1, "has") and mentions_ref(n1, "btree_not_found"):
            return "done", True
        return opaque_atom(n, registry)
    leaves = dtable.explore(split_counter_conditionals(fn.body, "size", tree), with_bool_cmp(atomize), fn)
    bad = None
    for lf in leaves:
        nodes = list(path_nodes(lf))
        for l in path_loops(lf):
            if any((counter_write(z) or ("", ""))[0] == "size" for z in walk(l)):
                und(fn, l, "stats_.size changes inside a loop")
        delta, unknown = counter_effect(fn, nodes, fields=("size",))
        odd = [z for z in nodes if (counter_write(z) or ("", ""))[0] == "size" and
               (counter_write(z)[1] not in ("+", "-") or counter_write(z)[2] is None)]
        if odd:
            und(fn, odd[0], "stats_.size is updated in an unrecognised form")
        d = delta.get("size", 0)
        done = lf["val"].get("done")
        expect = want if done else 0
        writes_size = lambda q: (counter_write(q) or ("", ""))[0] == "size"        # noqa: E731
        hidden = [z for z in nodes if own_call(tree, z) is not None and reaches(tree, own_call(tree, z), writes_size)] + \
            foreign_reaching(tree, fn, nodes, writes_size)
        if d == expect and not hidden:
            continue
        if hidden:
            und(fn, hidden[0], "%s() changes stats_.size itself and is not followed" % hidden[0]["callee"]["name"])
        if unknown is not None:
            und(fn, unknown, "stats_ is accessed in an unrecognised form on a path whose size change (%+d) is not the expected %+d" % (d, expect))
        # the path contradicts the clause; it is evidence only if every decision on it was understood
        murky = [k for k in other_atoms(lf["val"]) if any(
            z["k"] == "DeclRefExpr" and z["ref"].get("kind") == "local" for z in walk(registry.get(k))) or
            any(is_call(z) for z in walk(registry.get(k)))]
        if murky and done is None:
            und(fn, registry[murky[0]], "stats_.size changes on a path decided by %s, which is not understood" % murky[0][1])
        if done:
            bad = ("%s() must %s stats_.size exactly once when the element was %s; it changes by %+d on a successful path"
                   % (name, "++" if want > 0 else "--", "inserted" if want > 0 else "removed", d))
        else:
            bad = ("stats_.size changes (%+d) although the operation may not have %s an element" % (d, "inserted" if want > 0 else "removed"))
        break
    if bad:
        ck.violation("SIZE-PAIR", fn.qname, name, bad, fn.loc)
    else:
        ck.ok("SIZE-PAIR", tree.where(fn), "%ssize guarded by the operation's own result" % ("++" if want > 0 else "--"))


# ------------------------------------------------------------------ leaf chain
class ChainShape(B.Shape):
    """the alias model of btcommon for the leaf chain, made a closed world:
    * control flow: if (with init / condition variable), return, continue / break of the loop whose body is the fragment,
      throw; conditional operators over chain pointers fork the path like an if; comma expressions are executed in order;
    * whatever else can change a chain pointer, an owner or a node pointer local (a statement kind, a store, a call, a loop)
      is not skipped silently: the state is marked ('poison' in its trace) and the verdict on that path is 'cannot decide';
    * it remembers when a path was split on a condition the model does not interpret: on such a path 'no test was seen' is
      not evidence"""

    loop_body = False            # the fragment is the body of a loop: continue / break end the step

    def poison(self, st, n, why):
        st.trace.append(("poison", "%s: %s" % (self.fn.nloc(n) if n is not None and n.get("l") else self.fn.loc, why)))

    # ---- expressions
    def ev(self, e, st):
        e0 = unparen(e)
        if e0 is not None and e0["k"] == "BinaryOperator" and e0.get("op") == ",":
            self.ev(kids(e0)[0], st)
            return self.ev(kids(e0)[1], st)
        return B.Shape.ev(self, e0, st)

    def assign(self, lhs, v, st, e):
        l0 = unparen(lhs)
        if l0 is not None and l0["k"] == "DeclRefExpr" and node_ptr_type(l0.get("ty")) and \
                (l0["ref"].get("vty") or "").rstrip().endswith("&"):
            self.poison(st, l0, "store through the reference %s to a node pointer" % l0["ref"]["name"])
        if l0 is not None and l0["k"] == "MemberExpr" and kids(l0) and l0.get("member") in CHAINF:
            m, base = l0["member"], unparen(kids(l0)[0])
            if m in B.LINKS:
                b = self.ev(base, st)
                if b is None:
                    # a store that the model cannot place is not an absent store
                    self.poison(st, l0, "store to %s of a node the alias model cannot name (%s)" % (m, dtable.describe(base)))
                    return
                self.deref(b, st, l0)
                st.heap[(b, m)] = v if v is not None else "unknown"
                st.trace.append(("%s.%s" % (b, m), v))
                return
            if base is None or base["k"] != "This":
                self.poison(st, l0, "store to %s through another name of the tree" % m)
                return
        B.Shape.assign(self, l0, v, st, e)

    def exprs(self, e, st, var=None):
        """one full expression (an expression statement, an initialiser, a returned value) evaluated on st -> states"""
        e0 = unparen(e)
        if e0 is None:
            return [st]
        if var is None and e0["k"] == "BinaryOperator" and e0.get("op") == ",":
            out = []
            for x in self.exprs(kids(e0)[0], st):
                out += self.exprs(kids(e0)[1], x)
            return out
        cz = involved_conditional(e0)
        if cz is not None:
            cc, a, b = kids(cz)
            # the stores of the expression that contain the conditional happen after it is evaluated; any other store of
            # the same expression could come first
            inside = {id(q) for q in walk(cz)}
            for z in walk(e0):
                t = store_target(z)
                if t is not None and chain_lvalue(t) and id(z) not in inside and not any(q is cz for q in walk(z)):
                    self.poison(st, z, "a store next to a conditional expression: the order of evaluation is not modelled")
            out = []
            for x, truth in self.cond_full(cc, st):
                out += self.exprs(replace_node(e0, cz, a if truth else b), x, var)
            return out
        h = hidden_effect(self.fn, e0, comma=True)
        if h is not None:
            self.poison(st, h, "%s may change the leaf chain or a node pointer and is not executed by the alias model" % dtable.describe(h))
        self.forget_flags(e0, st)
        val = self.ev(e0, st)
        if var is not None and (val is not None or "*" in (var.get("ty") or "")):
            st.env[var["did"]] = val if val is not None else "unknown:%s" % var.get("name")
        return [st]

    def forget_flags(self, e, st):
        """a bool local that is written (or whose address is taken) below e no longer has the value decided at its declaration"""
        for z in walk(e):
            t = store_target(z)
            if t is None and z["k"] == "UnaryOperator" and z.get("op") == "&" and kids(z):
                t = kids(z)[0]
            if t is None and is_call(z):
                for a in kids(z):
                    d = ref_of(a)
                    if d is not None and isinstance(st.env.get(d), bool):
                        st.env.pop(d)               # possibly passed by reference
                continue
            d = ref_of(t) if t is not None else None
            if d is not None and isinstance(st.env.get(d), bool):
                st.env.pop(d)

    def decl(self, v, st):
        if v is None:
            return [st]
        if v["k"] != "VarDecl":
            if any(node_ptr_type(z.get("ty")) or (z["k"] == "MemberExpr" and z.get("member") in CHAINF) for z in walk(v)):
                self.poison(st, v, "declaration of an unknown kind (%s) over node pointers" % v["k"])
            return [st]
        if (v.get("isref") or (v.get("ty") or "").rstrip().endswith("&")) and node_ptr_type(v.get("ty")):
            self.poison(st, v, "reference %s to a node pointer" % v.get("name"))
        init = kids(v)[0] if kids(v) else None
        if init is None:
            return [st]
        if (v.get("ty") or "").replace("const ", "").strip() == "bool" and not v.get("isref"):
            # a flag: its value is decided where it is declared (the chain may change before it is tested)
            out = []
            for x, truth in self.cond_full(init, st):
                x.env[v["did"]] = bool(truth)
                out.append(x)
            return out
        return self.exprs(init, st, var=v)

    def cond_full(self, c, st):
        """Shape.cond() after forking on the conditional operators inside the condition"""
        cz = involved_conditional(c)
        if cz is not None:
            cc, a, b = kids(cz)
            out = []
            for x, truth in self.cond_full(cc, st):
                out += self.cond_full(replace_node(c, cz, a if truth else b), x)
            return out
        h = hidden_effect(self.fn, c, cond=True)
        if h is not None:
            self.poison(st, h, "%s inside a condition may change the leaf chain or a node pointer and is not executed by the alias model"
                        % dtable.describe(h))
        return self.cond(c, st)

    # ---- statements
    def stmt(self, s, st):
        if s is None:
            return [st]
        k = s["k"]
        if k == "CompoundStmt":
            return self.run(kids(s), st)
        if k == "NullStmt":
            return [st]
        if k == "IfStmt":
            states = self.stmt(s["init"], st) if isinstance(s.get("init"), dict) else [st]
            c, t, e = (kids(s) + [None, None])[:3]
            out = []
            for x in states:
                for y in (self.decl(s["condvar"], x) if isinstance(s.get("condvar"), dict) else [x]):
                    for y2, truth in self.cond_full(c, y):
                        out += self.stmt(t if truth else e, y2)
            return out
        if k == "ReturnStmt":
            out = self.exprs(kids(s)[0], st) if kids(s) and kids(s)[0] is not None else [st]
            for x in out:
                x.done = True
            return out
        if k == "DeclStmt":
            states = [st]
            for v in kids(s):
                states = [y for x in states for y in self.decl(v, x)]
            return states
        if k in ("ContinueStmt", "BreakStmt"):
            if self.loop_body and self.depth == 0:
                st.trace.append(("left", k))         # the step ends here (loops inside the fragment are not entered)
            else:
                self.poison(st, s, "%s outside the loop body that is evaluated" % k)
            st.done = True
            return [st]
        if k == "CXXThrowExpr":
            st.trace.append(("left", k))
            st.done = True
            return [st]
        if k in ("WhileStmt", "ForStmt", "DoStmt", "CXXForRangeStmt"):
            # loops are not entered: they move elements, and must not touch what the model tracks
            own = {z["did"] for z in walk(s) if z["k"] == "VarDecl" and "did" in z and
                   not (z.get("isref") or (z.get("ty") or "").rstrip().endswith("&"))}
            z = opaque_effect(self.fn, s, skip=own)
            if z is None:
                z = next((q for q in walk(s) if q["k"] == "MemberExpr" and q.get("member") in B.LINKS), None)
            if z is None:
                z = next((q for q in walk(s) if q["k"] in ("ReturnStmt", "GotoStmt")), None)
            if z is not None:
                self.poison(st, z, "a loop inside the fragment touches the leaf chain / leaves the function (%s)" % dtable.describe(z)[:80])
            self.forget_flags(s, st)
            return [st]
        if k.endswith("Stmt") or k in ("CXXTryStmt",):
            # switch, goto, label, try, ... : control flow the model does not follow
            self.poison(st, s, "statement of a kind the alias model does not execute (%s)" % k)
            return [st]
        h = self.helper_of(s)
        if h is not None:
            cal, actual = h
            for p, a in zip(cal.params, actual):
                if writable_ref(p) and chain_lvalue(a):
                    self.poison(st, a, "%s() receives %s by reference" % (cal.name, dtable.describe(a)))
                he = hidden_effect(self.fn, a)
                if he is not None:
                    self.poison(st, he, "%s in an argument is not executed by the alias model" % dtable.describe(he))
                v = self.ev(a, st)
                if v is not None or "*" in (p.get("ty") or ""):
                    st.env[p["did"]] = v if v is not None else "unknown:%s" % p.get("name")
            self.depth += 1
            try:
                out = self.run(kids(cal.body), st)
            finally:
                self.depth -= 1
            for x in out:
                x.done = False
            return out
        return self.exprs(s, st)

    def cond(self, c, st):
        c0 = strip_casts(c)
        if c0["k"] == "ParenExpr":
            return self.cond(kids(c0)[0], st)
        if c0["k"] == "UnaryOperator" and c0.get("op") == "!":
            return [(s, not t) for s, t in self.cond(kids(c0)[0], st)]
        if c0["k"] == "BinaryOperator" and c0.get("op") in ("&&", "||"):
            out = []
            for s, t in self.cond(kids(c0)[0], st):
                if (c0["op"] == "&&") == t:
                    out += self.cond(kids(c0)[1], s)
                else:
                    out.append((s, t))
            return out
        if c0["k"] == "DeclRefExpr" and isinstance(st.env.get(c0["ref"]["id"]), bool):
            return [(st, st.env[c0["ref"]["id"]])]           # a bool local whose value was decided at its declaration
        if is_call(c0, "is_leafnode"):
            s1, s2 = st.clone(), st.clone()
            s1.trace.append(("leafnode", True))
            s2.trace.append(("leafnode", False))
            return [(s1, True), (s2, False)]
        # n == tail_leaf_ / n == head_leaf_ while the owner still has its value from the entry of the fragment: the chain is
        # consistent on entry (the clause being checked, assumed inductively), so n is the tail iff n had no successor and the
        # head iff it had no predecessor
        b = match.binop(c0, ("==", "!=")) if c0["k"] in ("BinaryOperator", "UnaryOperator") else None
        if b and getattr(self, "entry", None):
            for x, y in ((b[1], b[2]), (b[2], b[1])):
                owner = match.this_field(y)
                if owner not in ("tail_leaf_", "head_leaf_") or st.tf.get(owner) not in (None, "old:" + owner):
                    continue
                sym = self.ev(x, st)
                nb = self.entry.get((sym, "next_leaf" if owner == "tail_leaf_" else "prev_leaf"))
                if nb is None:
                    continue
                isnull = st.is_null(nb)
                if isnull is not None:
                    return [(st, isnull == (b[0] == "=="))]
                s1, s2 = st.clone(), st.clone()
                s1.null[nb] = True
                s2.null[nb] = False
                return [(s1, b[0] == "=="), (s2, b[0] != "==")]
        res = B.Shape.cond(self, c, st)
        if len(res) == 2 and const_int(c0) is None:
            pt = match.ptr_truth(c) or match.ptr_truth(c0)
            b = match.binop(c0, ("==", "!="))
            understood = False
            if pt is not None and self.ev(pt, st) is not None:
                understood = True
            if b:
                l, r = self.ev(b[1], st), self.ev(b[2], st)
                if l is not None and r is not None and "NULL" in (l, r):
                    understood = True
            if not understood:
                for s, t in res:
                    s.trace.append(("opaque", "line %s: %s" % (c0.get("l"), dtable.describe(c0))))
        return res


def opaque_of(s):
    return [x[1] for x in s.trace if x[0] == "opaque"]


def vague_problem(p):
    """a 'possibly-null <sym> dereferenced' finding about a pointer whose value the model never knew (a local it could not
    evaluate) is not a finding about the code"""
    return "possibly-null unknown" in p or "possibly-null var:" in p


def vague_sym(x):
    return x is not None and (x == "unknown" or str(x).startswith(("unknown:", "var:")))


def poison_of(s):
    return [x[1] for x in s.trace if x[0] == "poison"]


def left_by(s, *kinds):
    return any(x[0] == "left" and (not kinds or x[1] in kinds) for x in s.trace)


def run_shape(fn, stmts, setup, tree=None, loop_body=False):
    """the final states of the fragment on the alias model.  Constructs through which a chain pointer can change without the
    model executing it (reference aliases, address-of, by-reference arguments, callees / closures that touch the chain,
    loops, unknown statement kinds, stores to nodes the model cannot name) poison the state of the path they are on; the
    callers answer 'cannot decide' for a poisoned path"""
    sh = ChainShape(fn, tree=tree)
    sh.loop_body = loop_body
    st = B.ShapeState()
    setup(st)
    sh.entry = dict(st.heap)         # the links as they are when the fragment is entered
    return sh.run(stmts, st)


def undecided_path(fn, s):
    p = poison_of(s)
    if p:
        und(fn, None, "leaf chain of %s: %s" % (fn.name, p[0]))


def same_node(s, a, b):
    """a and b denote the same node on the path s; a symbol that the path knows to be null is the null pointer"""
    ca = "NULL" if a is not None and s.is_null(a) is True else a
    cb = "NULL" if b is not None and s.is_null(b) is True else b
    return ca == cb


def settle(fn, s, bad, values=()):
    """a contradiction found on the alias model is evidence unless the path went through uninterpreted decisions or the
    values involved are unknown to the model"""
    if bad is None:
        return None
    if any(vague_sym(x) for x in values):
        und(fn, None, "leaf chain of %s: %s — but the model does not know the value (%s)" % (fn.name, bad, [x for x in values if vague_sym(x)][0]))
    return bad


def check_leafchain(ck, tree):
    guarded(ck, "LEAFCHAIN-SPLICE", lambda: check_chain_split(ck, tree))
    guarded(ck, "LEAFCHAIN-SPLICE", lambda: check_chain_merge(ck, tree))
    guarded(ck, "LEAFCHAIN-SPLICE", lambda: check_chain_appends(ck, tree))


def check_chain_split(ck, tree):
    # split_leaf_node(leaf, ...): new leaf N directly after L
    fn = tree.one("split_leaf_node")
    L = fn.params[0]["did"]

    def setup(st):
        st.env[L] = "L"
        st.null["L"] = False
        st.heap[("L", "next_leaf")] = "X"
    outs = run_shape(fn, kids(fn.body), setup, tree)
    bad = None
    for s in outs:
        if left_by(s, "CXXThrowExpr"):
            continue
        undecided_path(fn, s)
        if len(s.news) == 0:
            und(fn, None, "split_leaf_node: the new leaf is not obtained through allocate_leaf() on a path")
        if len(s.news) != 1:
            bad = "%d new leaves on one path" % len(s.news)
            break
        N = s.news[0]
        xnull = s.null.get("X")
        nn, npv, ln, xp, tl = (s.heap.get((N, "next_leaf")), s.heap.get((N, "prev_leaf")), s.heap.get(("L", "next_leaf")),
                               s.heap.get(("X", "prev_leaf")), s.tf.get("tail_leaf_"))
        hard = [p for p in s.problems if "possibly-null" not in p]
        soft = [p for p in s.problems if "possibly-null" in p]
        if hard:
            bad = hard[0]
        elif soft:
            if opaque_of(s):
                und(fn, None, "split_leaf_node: %s; the path is decided by %s, which is not interpreted" % (soft[0], opaque_of(s)[0]))
            if vague_problem(soft[0]):
                und(fn, None, "split_leaf_node: %s; the model does not know that pointer" % soft[0])
            bad = soft[0]
        elif not same_node(s, nn, "X"):
            bad = settle(fn, s, "new->next_leaf is %s, must be the old successor" % nn, [nn])
        elif not same_node(s, npv, "L"):
            bad = settle(fn, s, "new->prev_leaf is %s, must be the split leaf" % npv, [npv])
        elif not same_node(s, ln, N):
            bad = settle(fn, s, "leaf->next_leaf is %s, must be the new leaf" % ln, [ln])
        elif xnull is True and not same_node(s, tl, N):
            if opaque_of(s):
                und(fn, None, "split_leaf_node: tail_leaf_ is %s when the split leaf was the tail; the path is decided by %s" % (tl, opaque_of(s)[0]))
            bad = settle(fn, s, "the split leaf was the tail; tail_leaf_ must become the new leaf", [tl])
        elif xnull is False and not same_node(s, xp, N):
            if opaque_of(s):
                und(fn, None, "split_leaf_node: successor.prev_leaf is %s; the path is decided by %s" % (xp, opaque_of(s)[0]))
            bad = settle(fn, s, "the old successor's prev_leaf must point to the new leaf (reverse iteration skips it otherwise)", [xp])
        elif xnull is False and tl not in (None, "old:tail_leaf_"):
            if opaque_of(s):
                und(fn, None, "split_leaf_node: tail_leaf_ written on a path decided by %s" % opaque_of(s)[0])
            bad = settle(fn, s, "tail_leaf_ changed although the split leaf was not the tail", [tl])
        elif xnull is None:
            if opaque_of(s):
                und(fn, None, "split_leaf_node: the successor is not tested for null, but the path is decided by %s" % opaque_of(s)[0])
            bad = "the old successor is never tested for null"
        if bad:
            break
    report(ck, tree, fn, "split", bad, "%d paths: N.next=old next, N.prev=L, L.next=N, old next.prev=N | tail=N" % len(outs))



def check_chain_merge(ck, tree):
    # merge_leaves(left, right, ...): right is unlinked
    fn = tree.one("merge_leaves")
    Lp, Rp = fn.params[0]["did"], fn.params[1]["did"]

    def setup2(st):
        st.env[Lp], st.env[Rp] = "L", "R"
        st.null["L"] = st.null["R"] = False
        st.heap[("L", "next_leaf")] = "R"
        st.heap[("R", "prev_leaf")] = "L"
        st.heap[("R", "next_leaf")] = "X"
    outs = run_shape(fn, kids(fn.body), setup2, tree)
    bad = None
    for s in outs:
        if left_by(s, "CXXThrowExpr"):
            continue
        undecided_path(fn, s)
        xnull = s.null.get("X")
        ln, xp, tl = s.heap.get(("L", "next_leaf")), s.heap.get(("X", "prev_leaf")), s.tf.get("tail_leaf_")
        hard = [p for p in s.problems if "possibly-null" not in p]
        soft = [p for p in s.problems if "possibly-null" in p]
        if hard:
            bad = hard[0]
        elif soft:
            if opaque_of(s):
                und(fn, None, "merge_leaves: %s; the path is decided by %s, which is not interpreted" % (soft[0], opaque_of(s)[0]))
            if vague_problem(soft[0]):
                und(fn, None, "merge_leaves: %s; the model does not know that pointer" % soft[0])
            bad = soft[0]
        elif not same_node(s, ln, "X"):
            bad = settle(fn, s, "left->next_leaf is %s, must skip the emptied right leaf" % ln, [ln])
        elif xnull is True and not same_node(s, tl, "L"):
            if opaque_of(s):
                und(fn, None, "merge_leaves: tail_leaf_ is %s when the emptied leaf was the tail; the path is decided by %s" % (tl, opaque_of(s)[0]))
            bad = settle(fn, s, "the emptied leaf was the tail; tail_leaf_ must become the left leaf (it dangles after the free otherwise)", [tl])
        elif xnull is False and not same_node(s, xp, "L"):
            if opaque_of(s):
                und(fn, None, "merge_leaves: successor.prev_leaf is %s; the path is decided by %s" % (xp, opaque_of(s)[0]))
            bad = settle(fn, s, "the successor's prev_leaf still points to the emptied leaf, which is freed by the parent", [xp])
        elif xnull is None:
            if opaque_of(s):
                und(fn, None, "merge_leaves: the successor is not tested for null, but the path is decided by %s" % opaque_of(s)[0])
            bad = "the successor of the emptied leaf is never tested for null"
        if bad:
            break
    report(ck, tree, fn, "merge", bad, "%d paths: L.next=R.next, successor.prev=L | tail=L" % len(outs))



def check_chain_appends(ck, tree):
    # appends: copy_recursive (leaf paths) and bulk_load (leaf loop body)
    guarded(ck, "LEAFCHAIN-SPLICE", lambda: check_chain_copy(ck, tree))
    for fn in tree.find("bulk_load"):
        guarded(ck, "LEAFCHAIN-SPLICE", lambda: check_chain_bulk(ck, tree, fn))


def check_chain_copy(ck, tree):
    fn = tree.one("copy_recursive")
    if not any(is_call(z, "is_leafnode") for z in walk(fn.body)):
        raise ir.AnalysisBroken("%s: leaf branch not found" % fn.full)
    check_append(ck, tree, fn, kids(fn.body), "copy", leaf_paths=True)


def check_chain_bulk(ck, tree, fn):
    loops = [l for l in match.loops_in(fn.body) if any(is_call(z, "allocate_leaf") for z in walk(l))]
    if len(loops) != 1:
        raise ir.AnalysisBroken("%s: leaf loop not found" % fn.full)
    init, cond, inc, body = match.loop_parts(loops[0])
    for part in (init, cond, inc):
        z = opaque_effect(fn, part) if part is not None else None
        if z is not None:
            und(fn, z, "the head of the leaf loop touches the leaf chain (%s)" % dtable.describe(z))
    check_append(ck, tree, fn, kids(body) if body["k"] == "CompoundStmt" else [body], "bulk", loop_body=True)


def check_append(ck, tree, fn, stmts, what, leaf_paths=False, loop_body=False):
    def setup(st):
        st.tf["head_leaf_"] = "H"
        st.tf["tail_leaf_"] = "T"
    outs = run_shape(fn, stmts, setup, tree, loop_body=loop_body)
    if leaf_paths:
        # the whole function was run: the paths of the leaf case are those on which is_leafnode() held
        outs = [s for s in outs if ("leafnode", True) in s.trace]
        if not outs:
            und(fn, None, "%s: no path for the leaf case" % fn.name)
    bad = None
    n_eval = 0
    for s in outs:
        # consistent start states only: head null <=> tail null
        hn, tn = s.null.get("H"), s.null.get("T")
        if hn is not None and tn is not None and hn != tn:
            continue
        empty = hn if hn is not None else tn
        if left_by(s, "CXXThrowExpr"):
            continue
        undecided_path(fn, s)
        if len(s.news) == 0 and left_by(s, "ContinueStmt", "BreakStmt"):
            # a step that is skipped / the loop is left before a leaf was made: the chain must be untouched
            if any(x[0] in B.OWNERS or (isinstance(x[0], str) and x[0].endswith(B.LINKS)) for x in s.trace):
                und(fn, None, "%s: the chain is written on a step that makes no leaf" % fn.name)
            continue
        if len(s.news) == 0:
            und(fn, None, "%s: the appended leaf is not obtained through allocate_leaf() on a path" % fn.name)
        if len(s.news) != 1:
            bad = "%d new leaves per step" % len(s.news)
            break
        n_eval += 1
        N = s.news[0]
        op = opaque_of(s)
        if s.problems:
            # a dereference of the old tail is fine when the *head* was tested non-null (same fact)
            probs = [p for p in s.problems if not ("possibly-null T" in p and hn is False) and not ("possibly-null H" in p and tn is False)]
            if probs:
                if "possibly-null" in probs[0] and op:
                    und(fn, None, "%s: %s; the path is decided by %s, which is not interpreted" % (fn.name, probs[0], op[0]))
                if vague_problem(probs[0]):
                    und(fn, None, "%s: %s; the model does not know that pointer" % (fn.name, probs[0]))
                bad = probs[0]
                break
        tl, hd, nn, npv, tn_ = (s.tf.get("tail_leaf_"), s.tf.get("head_leaf_"), s.heap.get((N, "next_leaf")), s.heap.get((N, "prev_leaf")),
                                s.heap.get(("T", "next_leaf")))
        if not same_node(s, tl, N):
            bad = settle(fn, s, "tail_leaf_ is %s after appending, must be the new leaf" % tl, [tl])
        elif not same_node(s, nn, "NULL"):
            bad = settle(fn, s, "the appended leaf's next_leaf must be null", [nn])
        elif empty is True and (not same_node(s, hd, N) or not same_node(s, npv, "NULL")):
            if op:
                und(fn, None, "%s: first leaf: head=%s prev=%s on a path decided by %s" % (fn.name, hd, npv, op[0]))
            bad = settle(fn, s, "first leaf: head_leaf_ must be the new leaf and its prev_leaf null", [hd, npv])
        elif empty is False and (not same_node(s, tn_, N) or not same_node(s, npv, "T") or not same_node(s, hd, "H")):
            if op:
                und(fn, None, "%s: append after the tail: T.next=%s new.prev=%s head=%s on a path decided by %s" % (fn.name, tn_, npv, hd, op[0]))
            bad = settle(fn, s, "appending after tail T: T.next=%s new.prev=%s head=%s (want new, T, unchanged)" % (tn_, npv, hd), [tn_, npv, hd])
        elif empty is None:
            if op:
                und(fn, None, "%s: the chain is extended on a path decided by %s, which is not interpreted" % (fn.name, op[0]))
            bad = "the chain is extended without testing whether it is empty"
        if bad:
            break
    if not bad and not n_eval:
        und(fn, None, "%s: no consistent path evaluated" % fn.name)
    report(ck, tree, fn, what, bad, "%d paths: empty chain -> head=tail=N; else T.next=N, N.prev=T, tail=N" % len(outs))


def report(ck, tree, fn, what, bad, okmsg):
    if bad:
        ck.violation("LEAFCHAIN-SPLICE", fn.qname, what, "leaf chain broken by %s: %s" % (fn.name, bad), fn.loc)
    else:
        ck.ok("LEAFCHAIN-SPLICE", tree.where(fn, what), okmsg)


# ------------------------------------------------------------------ separator maintenance on erase
PN = 2          # model: the parent has two separators; parentslot ranges over 0..2, the leaf keeps 0..2 entries


def check_sep_update(ck, tree):
    for name in ("erase_one_descend", "erase_iter_descend"):
        guarded(ck, "SEP-UPDATE", lambda: _one_check_sep_update(ck, tree, name))


def _one_check_sep_update(ck, tree, name):
    fn = tree.one(name)
    roles = B.Roles(fn)
    loc = Locals(fn)
    for region in B.find_underflow_ifs(fn):
        rec = [z for z in walk(kids(region)[0]) if is_call(z, "is_underflow")][0]
        kind = "leaf" if "LeafNode" in rec["callee"]["record"] else "inner"
        holder = fn.parent(region)
        stmts = kids(holder)
        idx = [i for i, s in enumerate(stmts) if s is region][0]
        # the statements between the removal / recursive call and the underflow handling
        start = 0
        for i, s in enumerate(stmts[:idx]):
            if kind == "leaf" and s["k"] != "IfStmt" and any(slotuse_delta(z) not in (None, "set") for z in walk(s)):
                start = i + 1
            if kind == "inner" and any(is_call(z, name) for z in walk(s)):
                start = i + 1
        frag = {"k": "CompoundStmt", "ch": list(stmts[start:idx]), "id": -2}
        trigger = "LAST" if kind == "leaf" else ("has", "btree_update_lastkey")
        sig = "%s:%s" % (name, kind)
        bad, nv = None, 0
        for ps in (0, 1, 2):
            for n in ((0, 1, 2) if kind == "leaf" else (1,)):
                r = sep_model(fn, roles, loc, kind, frag, trigger, ps, n)
                nv += r[1]
                if r[0]:
                    bad = r[0]
                    break
            if bad:
                break
        if bad:
            ck.violation("SEP-UPDATE", fn.qname, sig, "in situation {%s}: %s — a stale separator misroutes later lookups and fails verify()"
                         % (bad[0], bad[1]), fn.nloc(region))
        else:
            ck.ok("SEP-UPDATE", tree.where(fn, kind), "%d situations: separator written at parentslot or handed to the caller" % nv)


def sep_operation(q):
    """q writes a separator key or names the update-lastkey flag"""
    if q["k"] == "DeclRefExpr" and q["ref"]["name"] == "btree_update_lastkey":
        return True
    if is_call(q, *COPYLIKE) and len(kids(q)) >= 3 and mentions_member(kids(q)[2], "slotkey"):
        return True
    t = store_target(q) if q["k"] in ("UnaryOperator", "BinaryOperator", "CompoundAssignOperator", "CXXOperatorCallExpr") else None
    return t is not None and mentions_member(t, "slotkey")


def sep_model(fn, roles, loc, kind, frag, trigger, ps, n):
    """the fragment under one integer model (parentslot = ps, parent->slotuse = PN, fill of the leaf after the removal = n)
    and every valuation of the remaining atoms -> ((situation, message) or None, number of situations)"""
    registry = {}

    def ival(e, env, depth=0):
        c = const_int(e)
        if c is not None:
            return c
        e = strip_casts(e)
        if e is None or depth > 6:
            return None
        if e["k"] == "ParenExpr":
            return ival(kids(e)[0], env, depth + 1)
        if e["k"] == "DeclRefExpr":
            if roles.param_of(e) == B.P_PSLOT:
                return ps
            d = e["ref"]["id"]
            if isinstance(env.get(d), dict) and d not in loc.written:
                return ival(env[d], env, depth + 1)
            return None
        f = match.field_of(e)
        if f and f[1] == "slotuse":
            p = roles.param_of(f[0])
            if p == B.P_PARENT:
                return PN
            if p == B.P_CURR and kind == "leaf":
                return n
            return None
        b = match.binop(e, ("+", "-", "*"))
        if b and e["k"] == "BinaryOperator":
            x, y = ival(b[1], env, depth + 1), ival(b[2], env, depth + 1)
            if x is None or y is None:
                return None
            return x + y if b[0] == "+" else x - y if b[0] == "-" else x * y
        return None

    def atomize(nd, run):
        n0 = nd
        n1 = strip_casts(nd)
        pt = match.ptr_truth(n0) or match.ptr_truth(n1)
        if pt is not None and roles.param_of(pt) == B.P_PARENT:
            return "P", False
        b = match.binop(n1, ("<", ">=", "==", "!=", ">", "<="))
        if b:
            op, l, r = b
            if op in ("==", "!="):
                for x, y in ((l, r), (r, l)):
                    if B.is_null(y) and roles.param_of(x) == B.P_PARENT and "*" in (strip_casts(x).get("ty") or ""):
                        return "P", op == "=="
            x, y = ival(l, run.env), ival(r, run.env)
            if x is not None and y is not None:
                return {"<": x < y, ">=": x >= y, "==": x == y, "!=": x != y, ">": x > y, "<=": x <= y}[op]
            if op in ("==", "!=") and kind == "leaf":
                for u, w in ((l, r), (r, l)):
                    fw = match.field_of(w)
                    if fw and fw[1] == "slotuse" and roles.param_of(fw[0]) == B.P_CURR and ref_of(u) is not None and \
                            roles.param_of(u) is None:
                        return "LAST", op == "!="
        if is_call(n1, "has"):
            flags = [z["ref"]["name"] for z in walk(n1) if z["k"] == "DeclRefExpr" and z["ref"]["name"].startswith("btree_")]
            if flags:
                return ("has", flags[0]), False
        return opaque_atom(nd, registry)

    def relevant(key):
        nd = registry.get(key)
        for z in walk(nd):
            if z["k"] == "DeclRefExpr" and roles.param_of(z) in (B.P_PARENT, B.P_PSLOT):
                return True
            f = match.field_of(z) if z["k"] == "MemberExpr" else None
            if kind == "leaf" and f and f[1] == "slotuse" and roles.param_of(f[0]) == B.P_CURR:
                return True
            if kind == "inner" and (z["k"] == "MemberExpr" and z.get("member") in ("lastkey", "flags")):
                return True
        return False
    leaves = dtable.explore(frag, with_bool_cmp(atomize), fn)
    atoms = dtable.atoms_of(leaves)
    for a in (trigger, "P"):
        if a not in atoms:
            atoms.append(a)
    nv = 0
    for v, lf in dtable.table(leaves, None, atoms):
        if lf["stop"][0] == "return":
            continue          # the not-found return of the inner part
        nv += 1
        env = lf["run"].env
        writes, props, unknown = [], [], []
        for i, what, root in path_roots(lf):
            if what == "loop":
                if mentions_ref(root, "btree_update_lastkey") or mentions_member(root, "slotkey"):
                    unknown.append(root)
                continue
            if what != "expr":
                continue
            e = strip_casts(loc.expand(root, env))
            b = match.binop(e, ("=",))
            ip = match.index_parts(b[1]) if b else None
            if ip and match.field_of(ip[0]) and match.field_of(ip[0])[1] == "slotkey" and \
                    roles.param_of(match.field_of(ip[0])[0]) == B.P_PARENT:
                writes.append((ip[1], b[2], e))
            elif mentions_ref(e, "btree_update_lastkey") and match.binop(e, ("|=",)):
                props.append(e)
            elif mentions_ref(e, "btree_update_lastkey") or any(
                    z["k"] == "MemberExpr" and z.get("member") == "slotkey" and roles.param_of(kids(z)[0]) == B.P_PARENT for z in walk(e)):
                unknown.append(e)
            elif any(is_call(z) and not is_call(z, "key", "has", "free_node") and z["k"] not in ("CXXConstructExpr", "CXXTemporaryObjectExpr") and
                     any(roles.param_of(a) == B.P_PARENT and "*" in (strip_casts(a).get("ty") or "") for a in kids(z)) for z in walk(e)):
                unknown.append(e)                 # the parent is handed to a function that is not followed
            elif match.binop(e, ("|=",)) and any(is_call(z) and z["k"] not in ("CXXConstructExpr", "CXXTemporaryObjectExpr") and
                                                 not z["callee"]["name"].startswith("operator") for z in walk(match.binop(e, ("|=",))[2])):
                unknown.append(e)                 # a result merged in from a call that is not followed
            elif foreign_reaching(None, fn, [z for z in walk(e) if is_call(z) and not is_call(z, "key", "has", "free_node") and
                                             z["k"] not in ("CXXConstructExpr", "CXXTemporaryObjectExpr") and
                                             not (z["callee"]["name"].startswith("operator") and z.get("op") != "()")], sep_operation):
                unknown.append(e)                 # a closure / helper that writes separators or raises the flag itself
        trig = v[trigger]
        direct = v["P"] and ps < PN
        if not trig:
            want = "none"
        elif direct:
            want = "write"
        elif kind == "leaf" and n == 0:
            want = "none"
        else:
            want = "propagate"
        got = "both" if writes and props else "write" if writes else "propagate" if props else "none"
        sit = dict(v)
        sit["parentslot=%d,parent->slotuse=%d%s" % (ps, PN, (",leaf->slotuse=%d" % n) if kind == "leaf" else "")] = True
        sit = dtable.fmt_val({str(k): x for k, x in sit.items() if not (isinstance(k, tuple) and k[0] == "other")})
        murky = [k for k in other_atoms(lf["val"]) if relevant(k)]
        never_seen = [a for a in (trigger,) if not any(a in l2["val"] for l2 in leaves)]

        def contradiction(msg, at=None):
            # evidence only if every decision and every separator operation on the path was understood
            if unknown:
                und(fn, unknown[0], "separator maintenance: %s is not understood (%s)" % (dtable.describe(unknown[0]), msg))
            if murky:
                und(fn, registry[murky[0]], "separator maintenance: the path is decided by %s, which is not understood (%s)" % (murky[0][1], msg))
            if never_seen and other_atoms(lf["val"]):
                und(fn, None, "separator maintenance: the test for 'largest key changed' was not recognised (%s)" % msg)
            return (sit, msg)
        if got != want:
            return contradiction("expected %s, found %s" % (want, got)), nv
        if writes:
            index, rhs, e = writes[0]
            iv = ival(index, env)
            if iv is None:
                und(fn, e, "separator maintenance: index of %s not understood" % dtable.describe(e))
            src = key_source(rhs, roles, kind, lambda x: ival(x, env), n)
            if src is None:
                und(fn, e, "separator maintenance: the key written by %s is not understood" % dtable.describe(e))
            if iv != ps or not src:
                return contradiction("the separator written is parent->slotkey[%s] = %s; it must be parent->slotkey[parentslot] = %s"
                                     % ("parentslot" if iv == ps else dtable.describe(index), dtable.describe(rhs),
                                        "leaf->key(leaf->slotuse - 1)" if kind == "leaf" else "result.lastkey")), nv
        if props:
            srcs = [kids(z)[1] for z in walk(props[0]) if z["k"] in ("CXXConstructExpr", "CXXTemporaryObjectExpr") and len(kids(z)) == 2]
            if not srcs:
                und(fn, props[0], "separator maintenance: the key handed upwards by %s is not understood" % dtable.describe(props[0]))
            src = key_source(srcs[0], roles, kind, lambda x: ival(x, env), n)
            if src is None:
                und(fn, props[0], "separator maintenance: the key handed upwards by %s is not understood" % dtable.describe(props[0]))
            if not src:
                return contradiction("the key propagated upwards is not the new largest key of the subtree"), nv
    return None, nv


def key_source(e, roles, kind, ival, n):
    """True: e is the new largest key of the subtree; False: it is recognisably another key; None: not understood"""
    e = match.strip_conv(e)
    if kind == "inner":
        f = match.field_of(e)
        if f is not None and f[1] == "lastkey":
            return True
        return None
    if is_call(e, "key") and e.get("member_call") and len(kids(e)) == 2:
        if roles.param_of(kids(e)[0]) != B.P_CURR:
            return False if roles.param_of(kids(e)[0]) is not None else None
        iv = ival(kids(e)[1])
        if iv is None:
            return None
        return iv == n - 1
    return None


# ------------------------------------------------------------------ results of the rebalancing primitives are kept
def check_result_kept(ck, tree):
    guarded(ck, "RESULT-KEPT", lambda: check_results_used(ck, tree))
    guarded(ck, "RESULT-KEPT", lambda: check_merge_reports(ck, tree))


def check_results_used(ck, tree):
    for name in ("erase_one_descend", "erase_iter_descend"):
        fn = tree.one(name)
        n = 0
        for z in walk(fn.body):
            if "callee" not in z or "result_t" not in (z["callee"].get("ret") or ""):
                continue
            if z["callee"]["name"] in ("result_t", "operator|=", "operator="):
                continue
            n += 1
            par = fn.parent(z)
            while par is not None and par["k"] in ("ImplicitCastExpr", "ParenExpr", "CXXConstructExpr", "CXXBindTemporaryExpr",
                                                   "MaterializeTemporaryExpr", "ExprWithCleanups"):
                par = fn.parent(par)
            # positive evidence: the call is a discarded-value expression statement
            used = par is not None and par["k"] not in ("CompoundStmt", "IfStmt", "WhileStmt", "ForStmt")
            if par is not None and par["k"] == "IfStmt" and kids(par)[0] is not None and any(x is z for x in walk(kids(par)[0])):
                used = True
            if par is not None and par["k"] in ("WhileStmt", "ForStmt") and not any(x is z for x in walk(match.loop_parts(par)[3])):
                used = True
            # the same discarded-value statement under a case / default / label, or as the body of a do / range-for / switch
            if par is not None and par["k"] in ("CaseStmt", "DefaultStmt", "LabelStmt", "AttributedStmt") and kids(par) and \
                    any(x is z for x in walk(kids(par)[-1])):
                used = False
            if par is not None and par["k"] == "DoStmt" and kids(par) and any(x is z for x in walk(kids(par)[0])):
                used = False
            if par is not None and par["k"] in ("SwitchStmt", "CXXForRangeStmt") and kids(par) and any(x is z for x in walk(kids(par)[-1])):
                used = False
            if not used:
                ck.violation("RESULT-KEPT", fn.qname, "%s:%s" % (name, z["callee"]["name"]),
                             "the result of %s() is dropped: the parent never learns that a node was emptied (btree_fixmerge) or that the "
                             "largest key changed (btree_update_lastkey)" % z["callee"]["name"], fn.nloc(z))
        ck.ok("RESULT-KEPT", tree.where(fn), "%d result_t-returning calls, none discarded" % n)


def check_merge_reports(ck, tree):
    for name, flag in (("merge_leaves", "btree_fixmerge"), ("merge_inner", "btree_fixmerge")):
        fn = tree.one(name)
        loc = Locals(fn)
        rets = [r for r in walk(fn.body) if r["k"] == "ReturnStmt"]
        if not rets:
            raise ir.AnalysisBroken("%s: no return statement" % fn.full)
        bad = None
        for r in rets:
            e = loc.expand(kids(r)[0]) if kids(r) else None
            if e is not None and mentions_ref(e, flag):
                continue
            # closed world: the returned value is built from enumeration constants only, and the flag is not among them
            opaque = [z for z in walk(e) if (z["k"] == "DeclRefExpr" and z["ref"].get("kind") != "enumconst") or
                      (is_call(z) and z["k"] not in ("CXXConstructExpr", "CXXTemporaryObjectExpr"))] if e is not None else [r]
            if opaque:
                und(fn, r, "%s(): the value returned (%s) is not understood" % (name, dtable.describe(e)))
            bad = r
            break
        if bad is not None:
            ck.violation("RESULT-KEPT", fn.qname, name, "%s() must report %s so that the parent frees the emptied node" % (name, flag), fn.nloc(bad))
        else:
            ck.ok("RESULT-KEPT", tree.where(fn), "returns " + flag)


# ------------------------------------------------------------------ the shared underflow table reads calls from expression statements
def check_underflow(ck, tree, fn):
    """B.check_underflow collects the rebalancing calls from the expression statements of a path.  A result that was given a
    name (`result_t r = merge_leaves(...); myres |= r;`) is presented to it as `result_t r; r = merge_leaves(...);`; a
    rebalancing call in any other non-statement position cannot be presented and is not decided."""
    import copy
    todo = []
    for region in B.find_underflow_ifs(fn):
        for z in walk(region):
            if not is_call(z, *B.REBAL):
                continue
            par = fn.parent(z)
            while par is not None and not (par["k"].endswith("Stmt") or par["k"] == "VarDecl"):
                par = fn.parent(par)
            if par is None or par["k"] in ("CompoundStmt", "IfStmt") and not (par["k"] == "IfStmt" and any(x is z for x in walk(kids(par)[0]))):
                continue
            if par["k"] == "VarDecl" and fn.parent(par) is not None and fn.parent(par)["k"] == "DeclStmt" and len(kids(fn.parent(par))) == 1 \
                    and fn.parent(fn.parent(par)) is not None and fn.parent(fn.parent(par))["k"] == "CompoundStmt":
                todo.append(par)
            else:
                und(fn, z, "%s() is called inside a %s; the underflow table only follows expression statements" % (z["callee"]["name"], par["k"]))
    def rebal_cond(stmt):
        """a ConditionalOperator inside the expression statement stmt whose arms contain rebalancing calls"""
        if stmt is None or stmt["k"].endswith("Stmt"):
            return None
        for q in walk(stmt):
            if q["k"] == "ConditionalOperator" and any(is_call(x, *B.REBAL) for a in kids(q)[1:] for x in walk(a)):
                return q
        return None
    conds = [r for region in B.find_underflow_ifs(fn) for r in walk(region)
             if r["k"] in ("CompoundStmt", "IfStmt") and any(rebal_cond(c) is not None for c in (kids(r) if r["k"] == "CompoundStmt" else kids(r)[1:]))]
    if not todo and not conds:
        return B.check_underflow(ck, tree, fn)
    ids = {v["id"] for v in todo}

    def split_cond(stmt, depth=0):
        q = rebal_cond(stmt) if depth < 4 else None
        if q is None:
            return stmt
        c, a, b = kids(q)
        return {"k": "IfStmt", "id": fresh(), "l": stmt.get("l"), "ch": [c, split_cond(replace_node(stmt, q, a), depth + 1),
                                                                     split_cond(replace_node(stmt, q, b), depth + 1)]}
    counter = [0]

    def fresh():
        counter[0] -= 1
        return counter[0] - 1000

    def rewrite(n):
        if n is None or "ch" not in n:
            return n
        out = dict(n)
        ch = []
        for c in n["ch"]:
            if c is not None and c["k"] == "DeclStmt" and len(kids(c)) == 1 and kids(c)[0] is not None and kids(c)[0].get("id") in ids:
                v = kids(c)[0]
                bare = dict(v)
                bare["ch"] = []
                d2 = dict(c)
                d2["ch"] = [bare]
                ref = {"k": "DeclRefExpr", "id": fresh(), "l": v.get("l"), "ty": v.get("ty"), "lv": True,
                       "ref": {"id": v["did"], "name": v.get("name"), "kind": "local"}}
                asg = {"k": "BinaryOperator", "op": "=", "id": fresh(), "l": v.get("l"), "ty": v.get("ty"), "ch": [ref, rewrite(kids(v)[0])]}
                ch += [d2, split_cond(asg)]
            elif n["k"] in ("CompoundStmt", "IfStmt") and not (n["k"] == "IfStmt" and c is n["ch"][0]) and rebal_cond(c) is not None:
                ch.append(split_cond(c))
            else:
                ch.append(rewrite(c))
        out["ch"] = ch
        return out
    fn2 = copy.copy(fn)
    fn2.body = rewrite(fn.body)
    fn2._byid = None
    fn2._parent = None
    return B.check_underflow(ck, tree, fn2)


# ------------------------------------------------------------------ driver
def run(ck):
    ck.explanation = (
        "Decides the structural clauses of C02, not the run-time invariants themselves. Node storage is obtained only in allocate_leaf/"
        "allocate_inner and released only in free_node, each with the node type, rebound allocator and counter of its kind; an unlinked child "
        "is freed before the slot that referenced it is overwritten and the emptied root is freed exactly once with all owners redirected; "
        "clear() releases children, then the root, then nulls the owners and resets the statistics; operator= clears before it replaces the "
        "allocator and copies after; swap exchanges every data member; the leaf-chain splices of split, merge, copy and bulk load are executed "
        "on a finite alias model and must produce a consistent doubly linked chain for null and non-null neighbours; size changes only "
        "under the operation's own success flag; removing the largest key of a leaf writes the parent's separator or hands the key upwards in "
        "every situation; every consistent underflow situation is resolved by one legal merge/shift with the correct separator slot; "
        "is_full/is_few/is_underflow fit the node's own capacity; no rebalancing result is dropped. Balance, fill and key order after each step "
        "of a history are value-dependent and not decided. A violation is reported only with a counterexample (path, valuation, evaluated "
        "state); code the rules do not understand yields 'cannot decide'.")
    ck.assumptions += [
        "B+ tree shape facts used to prune impossible underflow situations (see C01)",
        "the alias model treats the successor/tail pointers as one symbolic node that may be null; element moves inside loops do not touch chain pointers (checked)",
        "the leaf chain is consistent when a splice is entered (the clause itself, assumed inductively): a leaf equals tail_leaf_ iff it has no successor, head_leaf_ iff it has no predecessor",
        "SEP-UPDATE evaluates integer tests on the model parent->slotuse = 2, parentslot in 0..2, leaf fill after removal in 0..2",
    ]
    n_trees = 0
    for cfg, tu in B.load(ck.tier):
        ts = B.trees(tu)
        n_trees += len(ts)
        for t in ts:
            for what, thunk in (
                    ("NODE-ALLOC-OWNER", lambda: check_alloc_owner(ck, t)),
                    ("FREE-ON-UNLINK", lambda: check_free_on_unlink(ck, t)),
                    ("ROOT-COLLAPSE", lambda: check_root_collapse(ck, t)),
                    ("CLEAR-RESET/CHILD-RANGE", lambda: check_clear(ck, t)),
                    ("ASSIGN-ORDER", lambda: check_assign(ck, t)),
                    ("SWAP-COMPLETE", lambda: check_swap(ck, tu, t)),
                    ("SIZE-PAIR", lambda: check_size(ck, t)),
                    ("LEAFCHAIN-SPLICE", lambda: check_leafchain(ck, t)),
                    ("SEP-UPDATE", lambda: check_sep_update(ck, t)),
                    ("RESULT-KEPT", lambda: check_result_kept(ck, t)),
                    ("UNDERFLOW-LEGAL", lambda: check_underflow(ck, t, t.one("erase_one_descend"))),
                    ("UNDERFLOW-LEGAL", lambda: check_underflow(ck, t, t.one("erase_iter_descend")))):
                guarded(ck, what, thunk)
            if t.small:
                ck.guarded(lambda: B.check_capacity(ck, t, cfg))
                ck.guarded(lambda: btprim.check_primitives(ck, t, cfg))
                ck.guarded(lambda: btprim.check_insert(ck, tu, t, cfg))
                ck.guarded(lambda: btprim.check_erase(ck, tu, t, cfg))
                ck.guarded(lambda: btprim.check_bulk_load(ck, tu, t, cfg))
    m = n_trees
    ck.floor("NODE-ALLOC-OWNER", 7 * m)
    ck.floor("FREE-ON-UNLINK", 2 * m)
    ck.floor("ROOT-COLLAPSE", 4 * m)
    ck.floor("CLEAR-RESET", 4 * m)
    ck.floor("CHILD-RANGE", 2 * m)
    ck.floor("ASSIGN-ORDER", m)
    ck.floor("SWAP-COMPLETE", m)
    ck.floor("SIZE-PAIR", 3 * m)
    ck.floor("LEAFCHAIN-SPLICE", 4 * m)
    ck.floor("SEP-UPDATE", 4 * m)
    ck.floor("RESULT-KEPT", 4 * m)
    ck.floor("UNDERFLOW-LEGAL", 4 * m)
    ck.floor("NODE-CAPACITY", m)
    ck.floor("PRIMITIVE-EFFECT", 4 * m)      # eight primitives per small_traits tree
    ck.floor("INSERT-EFFECT", m)            # leaf and inner level per small_traits tree
    ck.floor("ERASE-EFFECT", 2 * m)
    ck.floor("BULK-LOAD-SHAPE", m // 2)
