"""C19 — string codecs and helpers: base64 tables / bit provenance / skip loops, hex digit
tables vs parser switches, scan windows, writer/reader quoting agreement, three-way
comparator orientation, case-insensitive overload families, forwarding roles."""
from engine import ir, dtable, match, linear, cfg as cfgm
from engine.ir import kids, strip_casts, const_int, ref_of
from rules.c20 import bits_eval, ShiftUB
from rules.c15 import flatten_switch

RFC_ALPHABET = "ABCDEFGHIJKLMNOPQRSTUVWXYZabcdefghijklmnopqrstuvwxyz0123456789+/"


def local_table(fn, name):
    for x in fn.nodes():
        if x["k"] == "VarDecl" and x["name"] == name and kids(x):
            init = strip_casts(kids(x)[0])
            if init["k"] == "InitListExpr":
                return [const_int(e) for e in kids(init)]
            if "bytes" in init:
                return list(init["bytes"])
    raise ir.AnalysisBroken("%s: table %s not found" % (fn.loc, name))


def local_const(fn, name):
    for x in fn.nodes():
        if x["k"] == "VarDecl" and x["name"] == name and kids(x):
            return const_int(kids(x)[0])
    return None


# ------------------------------------------------------------------ base64
class B64Interp:
    """symbolic run of one group of the encoder / decoder loop body.  Input units are symbolic bit
    vectors; `in == in_end` is decided by the number of units still available."""

    def __init__(self, fn, avail, unit_bits, reader):
        self.fn = fn
        self.avail = avail
        self.unit_bits = unit_bits
        self.reader = reader          # 'byte' (*in++) or 'table' (decoding64[*in++])
        self.read = 0
        self.env = {}
        self.out = []
        self.W = 16

    def unit(self):
        k = self.read
        self.read += 1
        return [("u%d" % k, j) if j < self.unit_bits else 0 for j in range(self.W)]

    def is_in_end_test(self, c):
        b = match.binop(c, ("==",))
        return bool(b and {ir.ref_name(b[1]), ir.ref_name(b[2])} == {"in", "in_end"})

    def value(self, e):
        e0 = strip_casts(e)
        # *in++  /  decoding64[*in++]
        d = match.deref_of(e0)
        if d is not None:
            u = match.unop(d, ("++",))
            if u and ir.ref_name(u[1]) == "in":
                return self.unit()
        p = match.index_parts(e0)
        if p and ir.ref_name(p[0]) == "decoding64":
            return self.value(p[1])
        try:
            return bits_eval(e, self.env, self.W)
        except ShiftUB:
            return None

    def run(self, s):
        k = s["k"]
        if k == "CompoundStmt":
            for c in kids(s):
                r = self.run(c)
                if r:
                    return r
            return None
        if k == "IfStmt":
            c, t, e = kids(s)
            if self.is_in_end_test(c):
                if self.read >= self.avail:
                    return self.run(t) or "fall"
                return None
            # strict / line-break tests: not part of the bit flow
            return None
        if k == "ReturnStmt":
            return "return"
        if k == "DoStmt":
            # read loop of the decoder: one valid letter
            body = kids(s)[0]
            for c in kids(body):
                if c["k"] == "IfStmt" and self.is_in_end_test(kids(c)[0]):
                    if self.read >= self.avail:
                        return "return"
                    continue
                b = match.binop(c, ("=",))
                if b and strip_casts(b[1])["k"] == "DeclRefExpr":
                    self.env[ref_of(b[1])] = self.value(b[2])
            return None
        if k in ("DeclStmt",):
            for v in kids(s):
                if kids(v):
                    val = self.value(kids(v)[0])
                    if val is not None:
                        self.env[v["did"]] = val
            return None
        b = match.binop(s, ("=", "|=", "+="))
        if b:
            lhs = strip_casts(b[1])
            if b[0] == "+=" and ir.ref_name(lhs) == "out":
                rhs = strip_casts(b[2])
                p = match.index_parts(rhs)
                if p and ir.ref_name(p[0]) == "encoding64":
                    self.out.append(("sextet", self.value(p[1])))
                elif const_int(rhs) is not None and rhs["k"] == "CharacterLiteral":
                    self.out.append(("char", const_int(rhs)))
                else:
                    self.out.append(("byte", self.value(rhs)))
                return None
            if lhs["k"] == "DeclRefExpr":
                v = self.value(b[2])
                if b[0] == "|=":
                    old = self.env.get(ref_of(lhs))
                    v = [x if y == 0 else y if x == 0 else None for x, y in zip(old, v)] if old and v else None
                self.env[ref_of(lhs)] = v
                return None
        return None


def check_base64(ck, tu):
    enc = [f for f in tu.find(qname="tlx::base64_encode") if len(f.params) == 3][0]
    dec = [f for f in tu.find(qname="tlx::base64_decode") if len(f.params) == 3][0]
    e64 = local_table(enc, "encoding64")
    d64 = local_table(dec, "decoding64")
    ws, ex = local_const(dec, "ws"), local_const(dec, "ex")
    okt = True
    if "".join(chr(c) for c in e64) != RFC_ALPHABET:
        ck.violation("B64-TABLES", enc.qname, "alphabet", "the encoder alphabet is not the RFC 4648 alphabet", enc.loc)
        okt = False
    if len(d64) != 256 or ws is None or ex is None or ws < 64 or ex < 64:
        ck.violation("B64-TABLES", dec.qname, "table-shape", "decoder table must have 256 entries and special values >= 64", dec.loc)
        okt = False
    else:
        for i, c in enumerate(e64):
            if d64[c] != i:
                ck.violation("B64-TABLES", dec.qname, "inverse:%s" % chr(c), "decoding64[%r] = %s, must be %d (inverse of the encoder alphabet)" % (chr(c), d64[c], i), dec.loc)
                okt = False
                break
        for c in (9, 10, 13, 32, ord("=")):
            if d64[c] != ws:
                ck.violation("B64-TABLES", dec.qname, "skip:%d" % c, "character %r must be skipped (padding / whitespace) but maps to %s" % (chr(c), d64[c]), dec.loc)
                okt = False
        extra = [i for i in range(256) if d64[i] not in (ex,) and i not in e64 and i not in (9, 10, 13, 32, 61)]
        if extra:
            ck.violation("B64-TABLES", dec.qname, "extra:%d" % extra[0], "character %r is accepted although it is not in the alphabet" % chr(extra[0]), dec.loc)
            okt = False
    if okt:
        ck.ok("B64-TABLES", "base64", "alphabet = RFC 4648; decoder table inverts it on all 64 letters; '=' and whitespace skipped; 187 other bytes rejected")
    # ---- skip loops of the decoder: continue exactly for the special values
    loops = [x for x in dec.nodes() if x["k"] == "DoStmt"]
    ck.require(len(loops) == 4, "%s: expected four letter-reading loops" % dec.loc)
    oks = True
    for i, l in enumerate(loops):
        cond = kids(l)[1]
        b = match.binop(cond, (">=", ">", "==", "!=", "<", "<="))
        if not b:
            raise dtable.Undecidable("%s: read-loop condition not understood" % dec.nloc(cond))
        fr = ref_of(b[1])

        def val(e, f):
            return f if ref_of(e) == fr else const_int(e)
        for f in list(range(64)) + [ws, ex]:
            x, y = val(b[1], f), val(b[2], f)
            cont = {">=": x >= y, ">": x > y, "==": x == y, "!=": x != y, "<": x < y, "<=": x <= y}[b[0]]
            want = f >= 64
            if cont != want:
                ck.violation("B64-SKIP", dec.qname, "loop%d" % i,
                             "letter-reading loop %d %s for table value %d: %s" % (i + 1, "continues" if cont else "stops", f,
                             "a valid letter is skipped" if cont else "whitespace / padding is taken as a data letter and shifts everything after it"), dec.nloc(cond))
                oks = False
                break
    if oks:
        ck.ok("B64-SKIP", dec.qname, "all four read loops skip exactly the special table values (whitespace, '=', invalid) and stop on every letter value 0..63")
    # ---- bit provenance
    loop_e = [x for x in enc.nodes() if x["k"] == "WhileStmt"][0]
    okb = True
    for avail in (1, 2, 3):
        it = B64Interp(enc, avail, 8, "byte")
        it.run(kids(loop_e)[1])
        sext = [o[1] for o in it.out if o[0] == "sextet"]
        pads = [o for o in it.out if o[0] == "char" and o[1] == ord("=")]
        bits = []
        for k in range(avail):
            bits += [("u%d" % k, j) for j in range(7, -1, -1)]          # msb first
        while len(bits) % 6:
            bits.append(0)
        want = [bits[i:i + 6] for i in range(0, len(bits), 6)]
        got = [[s[j] for j in range(5, -1, -1)] if s else None for s in sext]
        if got != want or len(pads) != (3 - avail) % 3 or any(s is None or any(s[j] != 0 for j in range(6, 16)) for s in sext):
            ck.violation("B64-BITS", enc.qname, "encode:%dbytes" % avail,
                         "encoding %d input byte(s) does not produce the RFC sextets (bit provenance differs) or the wrong number of '=' (%d)" % (avail, len(pads)), enc.loc)
            okb = False
    loop_d = [x for x in dec.nodes() if x["k"] == "WhileStmt"][0]
    for avail in (2, 3, 4):
        it = B64Interp(dec, avail, 6, "table")
        it.run(kids(loop_d)[1])
        outb = [o[1] for o in it.out if o[0] == "byte"]
        bits = []
        for k in range(avail):
            bits += [("u%d" % k, j) for j in range(5, -1, -1)]
        nbytes = (avail * 6) // 8
        want = [bits[i * 8:(i + 1) * 8] for i in range(nbytes)]
        got = [[b_[j] for j in range(7, -1, -1)] if b_ else None for b_ in outb]
        if got != want:
            ck.violation("B64-BITS", dec.qname, "decode:%dletters" % avail, "decoding %d letters does not reassemble the RFC bytes (bit provenance differs)" % avail, dec.loc)
            okb = False
    if okb:
        ck.ok("B64-BITS", "base64", "encoder: 1/2/3 bytes -> sextets + padding; decoder: 2/3/4 letters -> bytes; every bit traced to its source (decode o encode = identity)")
    for fn in tu.find(qname="tlx::base64_encode") + tu.find(qname="tlx::base64_decode"):
        if len(fn.params) == 2:
            c = [x for x in fn.nodes() if "callee" in x and x["callee"]["qname"] == fn.qname]
            okf = len(c) == 1 and match.call_named(kids(c[0])[0], ("data",)) and match.call_named(kids(c[0])[1], ("size",)) and ref_of(kids(c[0])[2]) == fn.params[1]["did"]
            if okf:
                ck.ok("FORWARD-ROLES", fn.qname + "(string_view)", "forwards (data, size, option)", nontrivial=False)
            else:
                ck.violation("FORWARD-ROLES", fn.qname, "string_view-overload", "does not forward (str.data(), str.size(), option)", fn.loc)


# ------------------------------------------------------------------ hexdump
def check_hex(ck, tu):
    uc, lc = "0123456789ABCDEF", "0123456789abcdef"
    okall = True
    for q, want in (("tlx::hexdump", uc), ("tlx::hexdump_lc", lc), ("tlx::hexdump_sourcecode", uc)):
        for fn in tu.find(qname=q):
            if not any(x["k"] == "VarDecl" and x["name"] == "xdigits" for x in fn.nodes()):
                continue
            t = "".join(chr(c) for c in local_table(fn, "xdigits"))
            if t != want:
                ck.violation("HEX-TABLES", fn.qname, "digits", "digit table is %r, expected %r" % (t, want), fn.loc)
                okall = False
            # emission order: high nibble then low nibble of the same byte
            em = []
            for x in fn.nodes():
                p = match.index_parts(x) if x["k"] in ("ArraySubscriptExpr",) else None
                if p and ir.ref_name(p[0]) == "xdigits":
                    idx = strip_casts(p[1])
                    sh = match.binop(idx, (">>",))
                    m = match.binop(sh[1] if sh else idx, ("&",))
                    mask = const_int(m[2]) if m else None
                    em.append((mask, const_int(sh[2]) if sh else 0))
            if em != [(0xF0, 4), (0x0F, 0)]:
                ck.violation("HEX-TABLES", fn.qname, "nibbles", "bytes are not written as high nibble then low nibble (%s)" % em, fn.loc)
                okall = False
    fn = tu.one(qname="tlx::parse_hexdump")
    sws = [x for x in fn.nodes() if x["k"] == "SwitchStmt"]
    ck.require(len(sws) == 2, "%s: two nibble switches expected" % fn.loc)
    for si, (sw, shift) in enumerate(zip(sws, (4, 0))):
        flat = flatten_switch(kids(sw)[1])
        table = {}
        labels = []
        has_default_throw = False
        for e in flat:
            if e[0] == "case":
                labels.append(e[1])
            elif e[0] == "default":
                labels.append("default")
            elif e[0] == "stmt":
                s = e[1]
                if s["k"] == "BreakStmt":
                    labels = []
                    continue
                b = match.binop(s, ("|=", "="))
                if b and labels:
                    for l in labels:
                        table[l] = const_int(b[2])
                if s["k"] == "CXXThrowExpr" or any(y["k"] == "CXXThrowExpr" for y in ir.walk(s)):
                    if "default" in labels:
                        has_default_throw = True
        for digits in (uc, lc):
            for v, ch in enumerate(digits):
                if table.get(ord(ch)) != (v << shift):
                    ck.violation("HEX-TABLES", fn.qname, "switch%d:%s" % (si, ch), "digit %r parses to %s in the %s nibble, must be %#x"
                                 % (ch, table.get(ord(ch)), "high" if shift else "low", v << shift), fn.nloc(sw))
                    okall = False
                    break
        extra = [c for c in table if c != "default" and chr(c) not in uc + lc]
        if extra or not has_default_throw:
            ck.violation("HEX-TABLES", fn.qname, "switch%d:reject" % si, "non-hex characters are not rejected", fn.nloc(sw))
            okall = False
    if okall:
        ck.ok("HEX-TABLES", "hexdump / hexdump_lc / parse_hexdump", "digit tables = 0-9A-F / 0-9a-f, high nibble first; both parser switches invert both tables on all 22 digits and reject the rest")


# ------------------------------------------------------------------ scan windows
def check_scan_window(ck, tu, fnq):
    for fn in tu.find(qname=fnq):
        if not (fn.params and any("StringView" in p["ty"] and p["name"] == "sep" for p in fn.params)):
            continue
        eq = [x for x in fn.nodes() if "callee" in x and x["callee"]["name"] == "equal" and "std" in x["callee"]["qname"]]
        if not eq:
            continue
        g = cfgm.CFG(fn)
        sep = [p["did"] for p in fn.params if p["name"] == "sep"][0]
        strp = [p["did"] for p in fn.params if p["name"] == "str"][0]
        for c in eq:
            cur = ref_of(kids(c)[2])
            loop = fn.parent(c)
            while loop is not None and loop["k"] not in ("ForStmt", "WhileStmt"):
                loop = fn.parent(loop)
            ck.require(loop is not None and cur is not None, "%s: window loop not found" % fn.loc)
            init, cond, inc, body = match.loop_parts(loop)
            tag = "%s(%s)" % (fn.qname, ",".join(p["name"] for p in fn.params))
            # guard: the loop condition, as a canonical linear inequality, is exactly  end - it - sep.size() >= 0
            L = linear.Lin(fn, g)
            size_calls = [y for y in fn.nodes() if "callee" in y and y.get("member_call") and y["callee"]["name"] in ("size", "length") and ref_of(kids(y)[0]) == sep]
            end_calls = [y for y in fn.nodes() if "callee" in y and y.get("member_call") and y["callee"]["name"] in ("end", "cend") and ref_of(kids(y)[0]) == strp]
            ck.require(size_calls and end_calls and cond is not None, "%s: sep.size() / str.end() not found" % fn.loc)
            fe, fs, fc = L.form(end_calls[0], cond), L.form(size_calls[0], cond), L.form(kids(c)[2], cond)
            terms = dict(fe[0])
            for f_, sg in ((fs, -1), (fc, -1)):
                for t, k_ in f_[0].items():
                    terms[t] = terms.get(t, 0) + sg * k_
            need = linear.canon({t: k_ for t, k_ in terms.items() if k_}, fe[1] - fs[1] - fc[1])
            atom = L.atom(cond, True, use=cond)
            if atom is None:
                raise dtable.Undecidable("%s: loop guard is not an inequality: %s" % (fn.loc, dtable.describe(cond)))
            if not linear.implies(atom, need):
                ck.violation("SCAN-WINDOW", fn.qname, tag + ":guard", "the loop guard %s (%s >= 0) does not ensure that a whole separator fits at the cursor "
                             "(needs %s >= 0): the comparison window can run past the end" % (dtable.describe(cond), linear.show(atom), linear.show(need)), fn.nloc(cond))
                continue
            if not linear.same(atom, need):
                ck.violation("SCAN-WINDOW", fn.qname, tag + ":guard", "the loop guard %s stops early (%s >= 0 instead of %s >= 0): a separator at the very end of "
                             "the string is never found" % (dtable.describe(cond), linear.show(atom), linear.show(need)), fn.nloc(cond))
                continue
            # after a match the scan resumes past the matched window: every path from the match edge back to the loop head
            # assigns the cursor (not merely ++)
            head = g.pos_deep(cond)[0]
            br = None
            for bid, blk in g.blocks.items():
                els = g.elements(bid)
                if len(blk.get("succ", [])) == 2 and els and isinstance(els[-1], int):
                    cn = fn.byid(els[-1])
                    if cn is not None and any(y is c for y in ir.walk(cn)):
                        br = (bid, cn)
            ck.require(br is not None, "%s: branch on the separator comparison not found" % fn.loc)
            neg = False
            cn = strip_casts(br[1])
            while cn is not None and cn is not c and (cn["k"] == "ParenExpr" or (cn["k"] == "UnaryOperator" and cn.get("op") == "!")):
                if cn["k"] == "UnaryOperator":
                    neg = not neg
                cn = strip_casts(kids(cn)[0])
            if cn is not c and strip_casts(cn) is not c:
                raise dtable.Undecidable("%s: the separator comparison is part of a larger condition" % fn.loc)
            raw = g.blocks[br[0]]["succ"]
            start = raw[1] if neg else raw[0]
            assigns = set()
            for y in fn.nodes():
                bb = match.binop(y, ("=", "+=")) if y["k"] in ("BinaryOperator", "CompoundAssignOperator", "CXXOperatorCallExpr") else None
                if bb and ref_of(bb[1]) == cur and strip_casts(bb[1])["k"] == "DeclRefExpr" and g.pos_deep(y) is not None:
                    assigns.add(g.pos_deep(y)[0])
            seen, work, leak = set(), [start], False
            while work:
                b_ = work.pop()
                if b_ in seen or b_ is None:
                    continue
                seen.add(b_)
                if b_ in assigns:
                    continue
                if b_ == head:
                    leak = True
                    break
                work.extend(g.succ[b_])
            if leak:
                ck.violation("SCAN-WINDOW", fn.qname, tag + ":resume",
                             "after a match the cursor is only advanced by one: an overlapping second match (separator 'aa' in 'aaaa') yields a part that ends before it begins", fn.nloc(c))
                continue
            ck.ok("SCAN-WINDOW", tag, "window guarded by it + sep.size() <= end; scan resumes behind the match")


# ------------------------------------------------------------------ quoting agreement
def check_quote(ck, tu_j, tu_s):
    wr = [f for f in tu_j.find(qname="tlx::join_quoted") if len(f.params) == 4][0]
    rd = [f for f in tu_s.find(qname="tlx::split_quoted") if len(f.params) == 4][0]
    rsep, rquote = rd.params[1]["did"], rd.params[2]["did"]
    # reader: top-level dispatch of the outer loop
    outer = [x for x in kids(rd.body) if x["k"] == "ForStmt"]
    ck.require(len(outer) == 1, "%s: reader loop not found" % rd.loc)
    node = [s for s in kids(match.loop_parts(outer[0])[3]) if s["k"] == "IfStmt"][0]
    classes = {}
    while node is not None and node["k"] == "IfStmt":
        b = match.binop(kids(node)[0], ("==",))
        which = None
        if b:
            which = "sep" if ref_of(b[2]) == rsep or ref_of(b[1]) == rsep else "quote" if ref_of(b[2]) == rquote or ref_of(b[1]) == rquote else None
        then = kids(node)[1]
        if which:
            classes[which] = any("callee" in y and y["callee"]["name"] in ("emplace_back", "push_back") for y in ir.walk(then))
        node = kids(node)[2]
    ck.require("sep" in classes and "quote" in classes, "%s: reader dispatch classes not recognised (%s)" % (rd.loc, classes))
    need = ["contains-sep"]
    if not classes["sep"]:
        need.append("empty")          # a separator at field start is skipped: an empty unquoted field vanishes
    need.append("starts-with-quote")  # a quote at field start switches to quoted mode
    # writer: condition under which the quoted form is chosen
    wsep, wquote = wr.params[1]["did"], wr.params[2]["did"]
    cond = None
    for x in wr.nodes():
        if x["k"] == "IfStmt" and any(const_int(y) is None and match.binop(y, ("+=",)) and ref_of(match.binop(y, ("+=",))[2]) == wquote for y in ir.walk(kids(x)[1])):
            if cond is None:
                cond = x
    ck.require(cond is not None, "%s: writer's quoting decision not found" % wr.loc)

    def atomize(n, run):
        b = match.binop(n, ("!=", "=="))
        if b:
            f = match.call_named(b[1], ("find", "find_first_of"))
            if f is not None and "callee" in strip_casts(b[1]) and ref_of(kids(strip_casts(b[1]))[1]) == wsep:
                return ("contains-sep", b[0] == "==")
            idx = match.index_parts(b[1])
            fr = match.call_named(b[1], ("front",))
            if ((idx and const_int(idx[1]) == 0) or (fr is not None and "callee" in strip_casts(b[1]))) and ref_of(b[2]) == wquote:
                return ("starts-with-quote", b[0] == "!=")
            sz = match.call_named(b[1], ("size", "length"))
            if sz is not None and "callee" in strip_casts(b[1]) and const_int(b[2]) == 0:
                return ("empty", b[0] == "!=")
        e = match.call_named(n, ("empty",))
        if e is not None and "callee" in strip_casts(n):
            return ("empty", False)
        return None
    leaves = dtable.explore(kids(cond)[0], atomize, wr, as_expr=True)
    atoms = list(dict.fromkeys(need + dtable.atoms_of(leaves)))
    bad = None
    for v, lf in dtable.table(leaves, lambda v: not (v.get("empty") and (v.get("contains-sep") or v.get("starts-with-quote"))), atoms):
        must = any(v.get(a) for a in need)
        if must and not lf["result"] and bad is None:
            bad = v
    if bad:
        which = [a for a in need if bad.get(a)]
        ck.violation("QUOTE-AGREE", wr.qname, "unquoted:" + "+".join(which),
                     "join_quoted writes a field that is %s without quotes, but split_quoted %s: the field does not survive the round trip"
                     % (" and ".join(which), "skips a separator at the start of a field (an empty field vanishes)" if "empty" in which else
                        "switches to quoted mode on a leading quote" if "starts-with-quote" in which else "ends an unquoted field at the separator"), wr.nloc(cond))
    else:
        ck.ok("QUOTE-AGREE", "join_quoted vs split_quoted", "reader classes %s => fields that are %s are always quoted" % (classes, ", ".join(need)))
    # escapes: every character the writer escapes is un-escaped by the reader to the same character
    wesc = {}
    for x in wr.nodes():
        if x["k"] == "IfStmt":
            b = match.binop(kids(x)[0], ("==",))
            if b and const_int(b[2]) is not None and strip_casts(b[2])["k"] == "CharacterLiteral":
                outs = [const_int(match.binop(y, ("+=",))[2]) for y in ir.walk(kids(x)[1]) if match.binop(y, ("+=",)) and strip_casts(match.binop(y, ("+=",))[2])["k"] == "CharacterLiteral"]
                if outs:
                    wesc[const_int(b[2])] = outs[-1]
    resc = {}
    for x in rd.nodes():
        if x["k"] == "IfStmt":
            b = match.binop(kids(x)[0], ("==",))
            if b and const_int(b[2]) is not None and strip_casts(b[2])["k"] == "CharacterLiteral":
                outs = [const_int(match.binop(y, ("+=",))[2]) for y in ir.walk(kids(x)[1]) if match.binop(y, ("+=",)) and strip_casts(match.binop(y, ("+=",))[2])["k"] == "CharacterLiteral"]
                if outs:
                    resc[const_int(b[2])] = outs[-1]
    badesc = [(c, l) for c, l in wesc.items() if resc.get(l) != c]
    if badesc:
        c, l = badesc[0]
        ck.violation("QUOTE-AGREE", rd.qname, "escape:%d" % c, "the writer escapes %r as \\%s but the reader maps \\%s to %r" % (chr(c), chr(l), chr(l), chr(resc.get(l, 63))), rd.loc)
    else:
        ck.ok("QUOTE-AGREE", "escape letters", "writer %s <-> reader inverse" % {chr(k): chr(v) for k, v in wesc.items()})


# ------------------------------------------------------------------ icase family
def end_atomizer(fn):
    """atoms Ea / Eb: operand a / b exhausted"""
    pa, pb = fn.params[0]["did"], fn.params[1]["did"]
    owner = {}
    for x in fn.nodes():
        if x["k"] == "VarDecl" and kids(x):
            c = match.call_named(kids(x)[0], ("begin", "cbegin"))
            if c is not None:
                owner[x["did"]] = ref_of(kids(strip_casts(kids(x)[0]))[0]) if "callee" in strip_casts(kids(x)[0]) else None

    def side(did):
        if did in (pa, owner_key(pa)):
            return "a"
        return None

    def owner_key(p):
        return [k for k, v in owner.items() if v == p][0] if [k for k, v in owner.items() if v == p] else None

    def who(e):
        r = ref_of(e)
        if r == pa or owner.get(r) == pa:
            return "a"
        if r == pb or owner.get(r) == pb:
            return "b"
        return None

    def atomize(n, run):
        b = match.binop(n, ("==", "!="))
        if not b:
            return None
        # *p == 0   /  it == x.end()
        for l, r in ((b[1], b[2]), (b[2], b[1])):
            d = match.deref_of(l)
            if d is not None and const_int(r) == 0 and who(d):
                return ("E" + who(d), b[0] == "!=")
            e = match.call_named(r, ("end", "cend"))
            if e is not None and "callee" in strip_casts(r) and who(l) and who(l) == who(kids(strip_casts(r))[0]):
                return ("E" + who(l), b[0] == "!=")
        return None
    return atomize, who


def tail_table(fn):
    """outcomes of the code after the main comparison loop for each (Ea, Eb)"""
    loops = [s for s in kids(fn.body) if s["k"] == "WhileStmt"]
    if len(loops) != 1:
        return None
    tail = kids(fn.body)[kids(fn.body).index(loops[0]) + 1:]
    atomize, who = end_atomizer(fn)
    frag = dict(k="CompoundStmt", id=-1, ch=tail)
    out = {}
    for Ea in (True, False):
        for Eb in (True, False):
            r = dtable.Run(atomize, {"Ea": Ea, "Eb": Eb}, fn)
            try:
                r.stmt(frag)
                out[(Ea, Eb)] = ("fallthrough",)
            except dtable._Stop as st:
                e = st.payload[0]

                def val(x, depth=0):
                    x0 = strip_casts(x)
                    while x0 is not None and x0["k"] == "ParenExpr":
                        x0 = strip_casts(kids(x0)[0])
                    if x0 is not None and x0["k"] == "ConditionalOperator" and depth < 4:
                        return val(kids(x0)[1] if r.truth(kids(x0)[0]) else kids(x0)[2], depth + 1)
                    v_ = int_of(x0)
                    if v_ is not None:
                        return ("const", v_)
                    if (x0.get("ty") or "") == "bool":
                        return ("const", int(r.truth(x0)))
                    raise dtable.Undecidable("value")
                try:
                    out[(Ea, Eb)] = val(e)
                except (dtable.Undecidable, dtable._Need):
                    out[(Ea, Eb)] = ("expr", e)
            except dtable._Need as nd:
                raise dtable.Undecidable("%s: unknown atom %s" % (fn.loc, nd.key))
    return out, loops[0], who


def int_of(e):
    e = strip_casts(e)
    c = const_int(e)
    if c is not None and e["k"] in ("IntegerLiteral", "CXXBoolLiteralExpr"):
        return int(c)
    u = match.unop(e, ("-", "+"))
    if u:
        v = int_of(u[1])
        return None if v is None else (-v if u[0] == "-" else v)
    return None


def check_icase(ck, tus):
    for fam in ("compare_icase", "equal_icase", "less_icase"):
        tu = tus[fam]
        for fn in tu.find(qname="tlx::" + fam):
            tag = "%s(%s)" % (fam, ",".join("view" if "StringView" in p["ty"] else "cstr" for p in fn.params))
            tt = tail_table(fn)
            if tt is None:
                # algorithm-based overload: orientation of the element comparison
                lams = [tu.by_did.get(x.get("fn")) for x in fn.nodes() if x["k"] == "LambdaExpr"]
                okl = True
                for lf in lams:
                    if lf is None:
                        continue
                    e = kids([y for y in lf.nodes() if y["k"] == "ReturnStmt"][0])[0]
                    b = match.binop(e, ("<", "==", ">"))
                    if b:
                        a0 = [y["ref"]["id"] for y in ir.walk(b[1]) if y["k"] == "DeclRefExpr" and y["ref"]["kind"] == "param"]
                        a1 = [y["ref"]["id"] for y in ir.walk(b[2]) if y["k"] == "DeclRefExpr" and y["ref"]["kind"] == "param"]
                        ps = [p["did"] for p in lf.params]
                        want = {"compare_icase": None, "equal_icase": "==", "less_icase": "<"}[fam]
                        if not (a0 == ps[:1] and a1 == ps[1:2] and b[0] == want):
                            okl = False
                if fam == "equal_icase":
                    sz = any(match.binop(y, ("!=",)) and match.call_named(match.binop(y, ("!=",))[1], ("size",)) for y in fn.nodes())
                    okl = okl and sz
                if okl:
                    ck.ok("ICASE-OVERLOADS", tag, "delegates to a std algorithm with the element comparison in operand order", nontrivial=False)
                else:
                    ck.violation("ICASE-OVERLOADS", fn.qname, tag, "algorithm-based overload compares elements in the wrong orientation / lacks the length test", fn.loc)
                continue
            out, loop, who = tt
            bad = None
            if fam == "compare_icase":
                want = {(True, True): 0, (True, False): -1, (False, True): 1}
                for k, w in want.items():
                    o = out[k]
                    sgn = (o[1] > 0) - (o[1] < 0) if o[0] == "const" else None
                    if sgn != w:
                        bad = (k, o, w)
                        break
                # in-loop orientation: ca < cb -> negative
                for x in ir.walk(loop):
                    if x["k"] == "IfStmt":
                        b = match.binop(kids(x)[0], ("<", ">"))
                        if b and ref_of(b[1]) is not None and ref_of(b[2]) is not None:
                            rets = [int_of(kids(y)[0]) for y in ir.walk(kids(x)[1]) if y["k"] == "ReturnStmt"]
                            names = (ir.ref_name(b[1]), ir.ref_name(b[2]))
                            first_is_a = names[0].endswith("a")
                            a_less = (b[0] == "<") == first_is_a
                            if rets and ((rets[0] < 0) != a_less):
                                bad = (("loop",), ("const", rets[0]), -1 if a_less else 1)
            elif fam == "equal_icase":
                want = {(True, True): 1, (True, False): 0, (False, True): 0, (False, False): 0}
                for k, w in want.items():
                    if out[k] != ("const", w):
                        bad = (k, out[k], w)
                        break
            else:
                want = {(True, True): 0, (True, False): 1, (False, True): 0}
                for k, w in want.items():
                    if out[k] != ("const", w):
                        bad = (k, out[k], w)
                        break
                o = out[(False, False)]
                if bad is None and o[0] == "expr":
                    b = match.binop(o[1], ("<",))
                    sides = []
                    if b:
                        for e in (b[1], b[2]):
                            ds = [who(y_) for y in ir.walk(e) for y_ in [match.deref_of(y)] if y_ is not None and who(y_)]
                            sides.append(ds[0] if ds else None)
                    if sides != ["a", "b"]:
                        bad = ((False, False), o, "to_lower(*a) < to_lower(*b)")
            if bad:
                k, o, w = bad
                desc = {(True, True): "both exhausted", (True, False): "a is a proper prefix of b", (False, True): "b is a proper prefix of a",
                        (False, False): "difference inside both", ("loop",): "differing characters"}.get(k, str(k))
                ck.violation("CMP3-ORIENT" if fam == "compare_icase" else "ICASE-OVERLOADS", fn.qname, tag + ":" + desc.replace(" ", "-"),
                             "%s: when %s the result is %s, must be %s" % (tag, desc, o[1] if o[0] == "const" else dtable.describe(o[1]), w), fn.loc)
            else:
                ck.ok("CMP3-ORIENT" if fam == "compare_icase" else "ICASE-OVERLOADS", tag, "end-of-input table over (a exhausted, b exhausted) has the sign/truth of a < b, a == b")


# ------------------------------------------------------------------ forwarding roles
def check_forward_roles(ck, tu, family):
    """in a forwarding call to an overload of the same family every argument that is a plain parameter goes to the
    callee parameter of the same name"""
    for fn in tu.find(qname="tlx::" + family):
        for c in fn.nodes():
            if "callee" not in c or c["callee"]["qname"] != fn.qname or c["k"] != "CallExpr":
                continue
            callee = tu.by_did.get(c["callee"]["did"])
            if callee is None or callee is fn:
                continue
            tag = "%s/%d -> %s/%d" % (family, len(fn.params), family, len(callee.params))
            bad = None
            for a, p in zip(kids(c), callee.params):
                r = ref_of(a)
                i = fn.param_index(r) if r is not None else None
                if i is not None and strip_casts(a)["k"] == "DeclRefExpr" and fn.params[i]["name"] != p["name"] and fn.params[i]["name"] in [q["name"] for q in callee.params] + ["min_fields"]:
                    bad = (fn.params[i]["name"], p["name"])
            if bad:
                ck.violation("FORWARD-ROLES", fn.qname, "%s:%s->%s" % (tag.replace(" ", ""), bad[0], bad[1]),
                             "%s passes its parameter `%s` where the callee expects `%s`" % (tag, bad[0], bad[1]), fn.nloc(c))
            else:
                ck.ok("FORWARD-ROLES", tag + " @" + fn.nloc(c), "parameters forwarded to the parameters of the same name", nontrivial=False)
            # min_fields handling: resize up to min_fields afterwards
        if any(p["name"] == "min_fields" for p in fn.params) and fn.params[0]["name"] == "into":
            mf = [p["did"] for p in fn.params if p["name"] == "min_fields"][0]
            rs = [x for x in fn.nodes() if "callee" in x and x["callee"]["name"] == "resize" and ref_of(kids(x)[1]) == mf]
            guard = [x for x in fn.nodes() if x["k"] == "IfStmt" and match.binop(kids(x)[0], ("<",)) and ref_of(match.binop(kids(x)[0], ("<",))[2]) == mf]
            if rs and guard:
                ck.ok("FORWARD-ROLES", "%s/%d min_fields" % (family, len(fn.params)), "result padded up to min_fields only", nontrivial=False)
            else:
                ck.violation("FORWARD-ROLES", fn.qname, "%s/%d:min_fields" % (family, len(fn.params)), "the result is not padded up to min_fields", fn.loc)


def check_replace(ck, tu):
    """replace_all: after an occurrence at `thispos` was replaced, the scan resumes exactly behind what was written there
    (thispos + length written); resuming further right skips bytes that were never examined, resuming further left can
    re-match inside the replacement"""
    n = 0
    for fn in [f for f in tu.functions if f.qname == "tlx::replace_all" and f.body is not None]:
        loops = [l for l in match.loops_in(fn.body) if l["k"] == "WhileStmt"]
        if len(loops) != 1:
            raise ir.AnalysisBroken("%s: scan loop not found" % fn.loc)
        cond, body = kids(loops[0])
        # thispos = haystack.find(needle..., lastpos...)
        asg = [z for z in ir.walk(cond) if match.binop(z, ("=",)) and z["k"] == "BinaryOperator"]
        finds = [z for z in ir.walk(cond) if "callee" in z and z["callee"]["name"] == "find"]
        if len(asg) != 1 or len(finds) != 1:
            raise ir.AnalysisBroken("%s: `thispos = x.find(...)` not found in the loop condition" % fn.loc)
        thispos = ref_of(match.binop(asg[0], ("=",))[1])
        fargs = kids(finds[0])[1:]
        lastpos = ref_of(fargs[1]) if len(fargs) > 1 else None
        # what is written at thispos
        written = None
        for z in ir.walk(body):
            if "callee" in z and z["callee"]["name"] == "replace" and z.get("member_call") and len(kids(z)) >= 5 and ref_of(kids(z)[1]) == thispos:
                written = ("len", kids(z)[4])
            b = match.binop(z, ("=",))
            if b and match.index_parts(b[1]) and ref_of(match.index_parts(b[1])[1]) == thispos:
                written = ("one", None)
        resume = None
        for z in ir.walk(body):
            b = match.binop(z, ("=",)) if z["k"] == "BinaryOperator" else None
            if b and lastpos is not None and ref_of(b[1]) == lastpos:
                resume = b[2]
        sigs = "replace_all(%s)" % ",".join(p["ty"].replace("std::", "").replace("tlx::", "")[:22] for p in fn.params)
        if written is None or resume is None or lastpos is None:
            raise ir.AnalysisBroken("%s: write at thispos / resume position not found" % fn.loc)
        n += 1
        pl = match.binop(resume, ("+",))
        good = False
        if pl and ref_of(pl[1]) == thispos:
            if written[0] == "one":
                good = const_int(pl[2]) == 1
            else:
                good = match.same_expr(pl[2], written[1])
        if not good:
            ck.violation("REPLACE-RESUME", fn.qname, sigs, "after replacing the occurrence at thispos the scan resumes at %s, but %s written there: "
                         "with an empty replacement (deletion) the byte right behind the occurrence is skipped, so an adjacent second occurrence survives"
                         % (dtable.describe(resume), "one character was" if written[0] == "one" else "%s characters were" % dtable.describe(written[1])),
                         fn.nloc(resume))
        else:
            ck.ok("REPLACE-RESUME", sigs, "resumes at thispos + length written")
    return n


def run(ck):
    ck.explanation = (
        "Writer/reader agreement decided from tables and structure: the base64 alphabet is RFC 4648 and the decoder table inverts it, padding and "
        "whitespace are skipped by all four letter-reading loops, encoder and decoder bit flows are traced symbolically (every output bit to its input "
        "bit, for 1/2/3 bytes and 2/3/4 letters) so decode o encode is the identity; hex digit tables agree with both nibble switches of the parser. "
        "SCAN-WINDOW: separator scans are guarded by it + L <= end and resume behind a match. QUOTE-AGREE: the reader's top-level classes are extracted "
        "and the writer's quoting predicate must cover every field the reader would otherwise mis-parse; escape letters are mutually inverse. "
        "CMP3-ORIENT / ICASE-OVERLOADS: end-of-input decision tables of the 12 case-insensitive comparison overloads. FORWARD-ROLES: forwarding "
        "overloads pass parameters to the callee parameter of the same name. Values of the pure helpers (trim, pad, levenshtein, replace...) are not decided.")
    tu_b = ir.extract("tlx/string/base64.cpp")
    check_base64(ck, tu_b)
    tu_h = ir.extract("tlx/string/hexdump.cpp")
    check_hex(ck, tu_h)
    tu_s = ir.extract("tlx/string/split.cpp")
    check_scan_window(ck, tu_s, "tlx::split")
    check_forward_roles(ck, tu_s, "split")
    tu_v = ir.extract("tlx/string/split_view.cpp")
    check_scan_window(ck, tu_v, "tlx::split_view")
    check_forward_roles(ck, tu_v, "split_view")
    check_quote(ck, ir.extract("tlx/string/join_quoted.cpp"), ir.extract("tlx/string/split_quoted.cpp"))
    check_icase(ck, {f: ir.extract("tlx/string/%s.cpp" % f) for f in ("compare_icase", "equal_icase", "less_icase")})
    ck.require(check_replace(ck, ir.extract("tlx/string/replace.cpp")) == 4, "expected the four replace_all overloads")
    ck.floor("REPLACE-RESUME", 4)
    ck.floor("B64-TABLES", 1)
    ck.floor("B64-SKIP", 1)
    ck.floor("B64-BITS", 1)
    ck.floor("HEX-TABLES", 1)
    ck.floor("SCAN-WINDOW", 2)
    ck.floor("QUOTE-AGREE", 2)
    ck.floor("CMP3-ORIENT", 4)
    ck.floor("ICASE-OVERLOADS", 8)
    ck.floor("FORWARD-ROLES", 8)
