"""C19 - string codecs and helpers: base64 tables / bit provenance / skip positions, hex digit tables vs the parser, scan
windows of split, writer/reader quoting agreement, three-way comparator orientation, case-insensitive overload families,
forwarding roles, replace_all resume position, and the values of the pure helpers (trim family, starts/ends-with, contains,
case maps, erase_all, replace_first/all, pad, levenshtein, join with split as its inverse) against their documented definition.

Every rule here is decided by EVALUATION: the extracted AST of the function is run on a small abstract machine (rule-local,
below) for a complete small family of inputs (all 256 byte values, symbolic bytes whose bits are traced, all strings over a
two-letter alphabet up to length 4, ...) and the result is compared with the specified result.  A violation is therefore
always a concrete counterexample (input, what the code yields, what it must yield).  Nothing is concluded from the shape of
the code: a construct the machine does not model is "cannot decide" (dtable.Undecidable, exit 2), never a violation, so a
behaviour-preserving rewrite (renamed locals, helper functions, other loop forms, early returns, std algorithms instead of
loops, ...) is either evaluated like the original or not decided.

Rules on the pure helpers (one instance per overload; an overload that vanished, is ambiguous, or is new and has no input
family is "cannot decide"; each overload is decided on its own, so an undecidable one does not hide another's violation):
  TRIM-SEMANTICS   27 overloads: {trim, trim_left, trim_right} x {std::string*, string_view*, string_view} x {default drop set,
                   string_view drop, char drop}.  Inputs: ~100 strings with every end shape (all strings over {space, x, NUL} up
                   to length 3, over {space, x} of length 4, each of space / CR / LF / tab / VT / FF / NUL / 0xE9 / 0xA0 / letters
                   alone, left, right and on both sides of a letter) x drop sets {" \r\n\t" by default}, chars {space, NUL, 0xE9,
                   x}, views {space,0xE9} in the middle of a longer buffer, {space,NUL,tab}, {NUL,space}, an empty view in the
                   middle of a buffer, " \r\n\t" not NUL-terminated.  Reference: strip exactly the bytes of the drop set from
                   the documented end(s); the in-place forms must leave the same bytes in the object and in the returned reference.
  AFFIX-SEMANTICS  12 overloads: starts_with, starts_with_icase, 4 x ends_with, 4 x ends_with_icase, 2 x contains.  Inputs: all
                   (str, match) pairs of words over {x,y} up to length 3 instantiated with letters, case pairs, non-letters 0x20
                   apart (@ `, [ {), 0xC9/0xE9 and NUL; buffers are exactly as long as the strings, so a read past the shorter
                   one is a fault of the run.  Reference: bytes.startswith / endswith / in, on ASCII-lower-cased bytes for _icase.
  CASE-MAP         6 overloads: to_lower / to_upper x {char, std::string*, string_view}.  Inputs: all 256 chars; the strings of all
                   256 byte values ascending / descending (also as a view into a longer buffer), short ones.  Reference: only
                   A-Z / a-z move, by 0x20; length and order kept.
  ERASE-ALL        4 overloads.  Inputs: all strings over {x, space, NUL} up to length 4 (+ tab / CR / LF / 0xE9 strings) x the
                   drop sets of TRIM-SEMANTICS.  Reference: filter.
  REPLACE-FIRST    4 overloads of replace_first; REPLACE-BYTES the 4 of replace_all (REPLACE-RESUME keeps its {a,b} family).
                   Inputs: strings over {a,b} up to length 4 x needles x replacements (replace_first), strings over {a, NUL, 0xE9}
                   up to length 3 x needles / replacements containing NUL / 0xE9 / given as non-terminated views.  Reference:
                   bytes.replace(needle, instead[, 1]).
  PAD              pad(string_view, len, char): strings over {a, NUL, 0xE9} up to length 3 (views followed by other bytes) x len 0..5
                   x 4 pad chars.  Reference: (str + pad * len)[:len].
  LEVENSHTEIN      levenshtein / levenshtein_icase x {C strings, string_views} (extracted from the header): all pairs of strings
                   over {a,b} up to length 3 and some longer, case pairs, non-letters, high bytes, NUL in views.  Reference: the
                   textbook dynamic programme with unit costs (on lower-cased bytes for _icase).
  JOIN-SPLIT       join(char | const char* | string_view glue, vector<string>): 1..3 parts over {a, NUL, 0xE9} x glue incl. NUL,
                   0xE9, two bytes, empty, non-terminated view.  Reference: glue.join(parts); and whenever the glue is non-empty
                   and occurs in the joined string at the glue positions only (it neither occurs in nor straddles the parts),
                   split(glue, joined) of split.cpp must return the parts.
Not decided here: the default ARGUMENTS written in the headers (pad_char = ' ', erase_all drop = ' '): the extractor does not
hand out default-argument expressions of declarations; the `limit` forms of split are covered by SCAN-WINDOW on {a,b} only."""
import itertools
import os

from engine import ir, dtable
from engine.ir import kids

Und = dtable.Undecidable


# ------------------------------------------------------------------ abstract machine
# A small interpreter for the string helpers' ASTs.  Integers, bytes, pointers into buffers, std::string, string_view (a value
# that its own members clear / remove_prefix / remove_suffix change in place), std::vector<string|string_view|integer>,
# tlx::simple_vector<integer> (elements start uninitialised), lambdas with captures, functions passed by name and
# std::back_inserter are concrete; bytes of an input may also be symbolic bit vectors (base64 bit provenance).
# Whatever the machine does not model raises dtable.Undecidable (exit 2) - it never guesses.  What it does model is
# executed exactly, so a wrong result / a read outside a buffer / a run that does not end is a concrete counterexample.
W = 32
NPOS = (1 << 64) - 1


class MemFault(Exception):
    """the interpreted code touches memory outside an object (a concrete fault of the analysed code)"""


class Thrown(Exception):
    """a C++ exception leaves the interpreted function"""


class Hang(Exception):
    """the step budget of one concrete run is exhausted"""


class _Brk(Exception):
    pass


class _Cont(Exception):
    pass


class _Ret(Exception):
    def __init__(self, v):
        self.v = v


class Buf:
    """contiguous storage; kind 'bytes' (cells 0..255 or symbolic bytes), 'vals' (integers), 'objs' (vector elements)"""
    __slots__ = ("cells", "what", "zterm", "kind", "table")

    def __init__(self, cells, what="buffer", zterm=False, kind="bytes", table=False):
        self.cells, self.what, self.zterm, self.kind, self.table = list(cells), what, zterm, kind, table


class Ptr:
    __slots__ = ("buf", "off")

    def __init__(self, buf, off):
        self.buf, self.off = buf, off


class Str:
    __slots__ = ("buf",)

    def __init__(self, cells=()):
        self.buf = Buf(cells, "std::string", zterm=True)


class View:
    __slots__ = ("buf", "off", "n")

    def __init__(self, buf, off, n):
        self.buf, self.off, self.n = buf, off, n


class Vec:
    __slots__ = ("buf", "elem")

    def __init__(self, items=(), elem="?"):
        self.buf, self.elem = Buf(items, "std::vector", kind="objs" if elem in ("str", "view") else "vals"), elem


class Ref:
    """pointer to an object (std::string*, std::vector<...>*)"""
    __slots__ = ("obj",)

    def __init__(self, obj):
        self.obj = obj


class Stream:
    __slots__ = ("s",)

    def __init__(self):
        self.s = Str()


class Lam:
    """a lambda / a function designated by name; caps: the captured variables (decl id -> value or Alias)"""
    __slots__ = ("fn", "caps")

    def __init__(self, fn, caps=None):
        self.fn, self.caps = fn, caps


class Native:
    """a library function designated by name (std::tolower passed to an algorithm)"""
    __slots__ = ("name",)

    def __init__(self, name):
        self.name = name


class BackIns:
    """std::back_inserter(container)"""
    __slots__ = ("obj",)

    def __init__(self, obj):
        self.obj = obj


class Moved:
    __slots__ = ("obj",)

    def __init__(self, obj):
        self.obj = obj


class Alias:
    __slots__ = ("lv",)

    def __init__(self, lv):
        self.lv = lv


class Pair:
    __slots__ = ("first", "second")

    def __init__(self, first, second):
        self.first, self.second = first, second


class Letter:
    """input byte k of the base64 decoder: some letter of the alphabet whose 6-bit value is symbolic"""
    __slots__ = ("k",)

    def __init__(self, k):
        self.k = k


class Enc:
    """table[index] for a symbolic index"""
    __slots__ = ("buf", "idx")

    def __init__(self, buf, idx):
        self.buf, self.idx = buf, idx


UNINIT = type("Uninit", (), {"__repr__": lambda s: "<uninitialised>"})()
DEFAULT = type("Default", (), {"__repr__": lambda s: "<default argument>"})()


class BV:
    """W-bit vector; a bit is 0, 1 or a symbol (name, j)"""
    __slots__ = ("bits",)

    def __init__(self, bits):
        self.bits = tuple(bits)

    @staticmethod
    def of(v):
        if isinstance(v, BV):
            return v
        return BV((v >> i) & 1 for i in range(W))

    def known(self):
        return all(b in (0, 1) for b in self.bits)

    def value(self):
        return sum(b << i for i, b in enumerate(self.bits))

    def lo(self):
        return sum((b if b in (0, 1) else 0) << i for i, b in enumerate(self.bits))

    def hi(self):
        return sum((b if b in (0, 1) else 1) << i for i, b in enumerate(self.bits))

    def conv(self, bits, signed):
        if bits >= W:
            if self.bits[W - 1] not in (0,) and bits > W:
                raise Und("symbolic value widened beyond %d bits" % W)
            return self
        top = self.bits[bits - 1] if signed else 0
        return BV(list(self.bits[:bits]) + [top] * (W - bits))


_INT = {"bool": (1, False), "char": (8, True), "signed char": (8, True), "unsigned char": (8, False), "std::uint8_t": (8, False),
        "uint8_t": (8, False), "std::int8_t": (8, True), "int8_t": (8, True), "short": (16, True), "unsigned short": (16, False),
        "int": (32, True), "unsigned int": (32, False), "unsigned": (32, False), "long": (64, True), "unsigned long": (64, False),
        "long long": (64, True), "unsigned long long": (64, False), "size_t": (64, False), "std::size_t": (64, False),
        "std::ptrdiff_t": (64, True), "ptrdiff_t": (64, True), "std::uint16_t": (16, False), "std::uint32_t": (32, False),
        "std::uint64_t": (64, False), "std::int32_t": (32, True), "std::int64_t": (64, True), "wchar_t": (32, True),
        "char16_t": (16, False), "char32_t": (32, False), "char8_t": (8, False)}


def _bare(ty):
    t = (ty or "").strip()
    while True:
        t0 = t
        for pre in ("const ", "volatile "):
            if t.startswith(pre):
                t = t[len(pre):].strip()
        for suf in ("&&", "&", " const", " volatile", "*const", "* const"):
            if t.endswith(suf):
                t = t[:-len(suf)].strip() + ("*" if suf.startswith("*") else "")
        if t == t0:
            return t


def int_type(ty):
    return _INT.get(_bare(ty))


def kind_of_type(ty):
    t = _bare(ty)
    if t.startswith("std::basic_string<char") or t in ("std::string",):
        return "str"
    if t.startswith("tlx::StringView") or t.startswith("std::basic_string_view<char") or t in ("tlx::string_view", "std::string_view"):
        return "view"
    if t.startswith("std::vector<"):
        return "vec"
    if t.startswith("tlx::SimpleVector<") or t.startswith("tlx::simple_vector<"):
        return "svec"
    if t.startswith("std::basic_ostringstream<") or t.startswith("std::basic_stringstream<") or t in ("std::ostringstream", "std::stringstream"):
        return "stream"
    return None


def vec_elem(ty):
    t = _bare(ty)
    while t.endswith("*"):
        t = _bare(t[:-1])
    for pre in ("std::vector<", "tlx::SimpleVector<", "tlx::simple_vector<"):
        if t.startswith(pre):
            break
    else:
        return "?"
    inner = t[len(pre):].strip()
    if inner.startswith("std::basic_string<char") or inner.startswith("std::string"):
        return "str"
    if inner.startswith("tlx::StringView") or inner.startswith("tlx::string_view") or inner.startswith("std::basic_string_view<char") or \
            inner.startswith("std::string_view"):
        return "view"
    return "int" if int_type(inner.split(",")[0].rstrip("> ").strip()) else "?"


def conv(v, ty):
    it = int_type(ty)
    if it is None:
        return v
    bits, signed = it
    if isinstance(v, bool):
        v = int(v)
    if isinstance(v, int):
        if bits == 1:
            return 1 if v else 0
        v &= (1 << bits) - 1
        if signed and v >> (bits - 1):
            v -= 1 << bits
        return v
    if isinstance(v, BV):
        if bits == 1:
            raise Und("symbolic value used as a truth value")
        return v.conv(bits, signed)
    return v


def _bit_and(x, y):
    if x == 0 or y == 0:
        return 0
    if x == 1:
        return y
    if y == 1 or x == y:
        return x
    return ("&",) + tuple(sorted((x, y), key=repr))          # a mix of two input bits: opaque, equal only to itself


def _bit_or(x, y):
    if x == 1 or y == 1:
        return 1
    if x == 0:
        return y
    if y == 0 or x == y:
        return x
    return ("|",) + tuple(sorted((x, y), key=repr))


def _bit_xor(x, y):
    if x in (0, 1) and y in (0, 1):
        return x ^ y
    if x == 0:
        return y
    if y == 0:
        return x
    if x == y:
        return 0
    return ("^",) + tuple(sorted((x, y), key=repr))


def bv_op(op, a, b, ty):
    """binary operator with at least one symbolic operand"""
    if isinstance(a, (Letter, Enc)) or isinstance(b, (Letter, Enc)):
        raise Und("arithmetic on an input letter / table value")
    if op in ("<<", ">>"):
        if not isinstance(b, int):
            raise Und("shift by a symbolic amount")
        a = BV.of(a)
        if b < 0 or b >= W:
            raise Und("shift of a symbolic value by %d" % b)
        if op == "<<":
            r = BV([0] * b + list(a.bits[:W - b]))
        else:
            if a.bits[W - 1] != 0:
                raise Und("right shift of a possibly negative symbolic value")
            r = BV(list(a.bits[b:]) + [0] * b)
        return conv(r, ty)
    a, b = BV.of(a & ((1 << W) - 1) if isinstance(a, int) else a), BV.of(b & ((1 << W) - 1) if isinstance(b, int) else b)
    if op in ("&", "|", "^"):
        f = {"&": _bit_and, "|": _bit_or, "^": _bit_xor}[op]
        return conv(BV(f(x, y) for x, y in zip(a.bits, b.bits)), ty)
    if op in ("==", "!="):
        differ = any(x in (0, 1) and y in (0, 1) and x != y for x, y in zip(a.bits, b.bits))
        if differ:
            return int(op == "!=")
        if a.bits == b.bits:
            return int(op == "==")
        raise Und("comparison of symbolic values not decided by their known bits")
    if op in ("<", "<=", ">", ">="):
        if a.bits[W - 1] != 0 or b.bits[W - 1] != 0:
            raise Und("ordering of possibly negative symbolic values")
        if op in (">", ">="):
            a, b, op = b, a, {">": "<", ">=": "<="}[op]
        if op == "<":
            if a.hi() < b.lo():
                return 1
            if a.lo() >= b.hi():
                return 0
        else:
            if a.hi() <= b.lo():
                return 1
            if a.lo() > b.hi():
                return 0
        raise Und("ordering of symbolic values not decided by their ranges")
    if a.known() and b.known():
        return None       # caller computes on integers
    raise Und("arithmetic (%s) on symbolic values" % op)


def truthy(v):
    if isinstance(v, bool):
        return v
    if isinstance(v, int):
        return v != 0
    if isinstance(v, Ptr):
        return v.buf is not None
    if isinstance(v, Ref):
        return v.obj is not None
    if isinstance(v, BV) and v.known():
        return v.value() != 0
    raise Und("truth value of %s" % type(v).__name__)


def load(buf, off, ty=None):
    if buf is None:
        raise MemFault("a null pointer is dereferenced")
    n = len(buf.cells)
    if 0 <= off < n:
        c = buf.cells[off]
    elif off == n and buf.zterm:
        c = 0
    else:
        raise MemFault("the %s (%d element(s)) is read at index %d" % (buf.what, n, off))
    if buf.kind == "objs":
        return c
    return conv(c, ty) if ty else c


def store(buf, off, v):
    if buf is None:
        raise MemFault("a null pointer is written through")
    n = len(buf.cells)
    if not 0 <= off < n:
        if off == n and buf.zterm and v == 0:
            return
        raise MemFault("the %s (%d element(s)) is written at index %d" % (buf.what, n, off))
    if buf.table:
        raise Und("write into a constant table")
    buf.cells[off] = cell_of(buf, v)


def cell_of(buf, v):
    if buf.kind == "bytes":
        if isinstance(v, bool):
            v = int(v)
        if isinstance(v, int):
            return v & 0xFF
        if isinstance(v, BV):
            return v.conv(8, False)
        if isinstance(v, (Enc, Letter)):
            return v
        raise Und("%s stored into a byte buffer" % type(v).__name__)
    if buf.kind == "objs":
        if isinstance(v, Moved):
            return take(v)
        if isinstance(v, Str):
            return Str(v.buf.cells)
        return fresh(v)
    return v


def fresh(v):
    """a string_view is a value: a copy is a new (pointer, length) pair (its members remove_prefix / clear change it in place)"""
    return View(v.buf, v.off, v.n) if isinstance(v, View) else v


def take(v):
    """the value of a std::move()d object; the source is left empty"""
    o = v.obj
    if isinstance(o, Str):
        r = Str(o.buf.cells)
        o.buf.cells = []
        return r
    if isinstance(o, Vec):
        r = Vec(o.buf.cells, o.elem)
        o.buf.cells = []
        return r
    return o


def unmoved(v):
    return v.obj if isinstance(v, Moved) else v


class VarLV:
    def __init__(self, env, did):
        self.env, self.did = env, did

    def get(self):
        v = self.env[self.did]
        return v.lv.get() if isinstance(v, Alias) else v

    def set(self, v):
        cur = self.env.get(self.did)
        if isinstance(cur, Alias):
            cur.lv.set(v)
        else:
            self.env[self.did] = v


class CellLV:
    def __init__(self, buf, off, ty=None):
        self.buf, self.off, self.ty = buf, off, ty

    def get(self):
        return load(self.buf, self.off, self.ty)

    def set(self, v):
        store(self.buf, self.off, v)


class ObjLV:
    def __init__(self, obj):
        self.obj = obj

    def get(self):
        return self.obj

    def set(self, v):
        assign_obj(self.obj, v)


def assign_obj(obj, v):
    if isinstance(obj, Str):
        if isinstance(v, Moved) and isinstance(v.obj, Str):
            if v.obj is not obj:
                obj.buf.cells = take(v).buf.cells
        elif isinstance(v, Str):
            obj.buf.cells = list(v.buf.cells)
        elif isinstance(v, View):
            obj.buf.cells = view_cells(v)
        elif isinstance(v, Ptr):
            obj.buf.cells = cstr_cells(v)
        elif isinstance(v, int):
            obj.buf.cells = [v & 0xFF]
        else:
            raise Und("assignment of %s to a std::string" % type(v).__name__)
        return
    if isinstance(obj, Vec):
        if isinstance(v, Moved) and isinstance(v.obj, Vec):
            if v.obj is not obj:
                obj.buf.cells = take(v).buf.cells
        elif isinstance(v, Vec):
            obj.buf.cells = [cell_of(obj.buf, x) for x in v.buf.cells]
        else:
            raise Und("assignment of %s to a std::vector" % type(v).__name__)
        return
    if isinstance(obj, View):
        v = unmoved(v)
        if isinstance(v, Str):
            v = View(v.buf, 0, len(v.buf.cells))
        elif isinstance(v, Ptr):
            v = View(v.buf, v.off, len(cstr_cells(v)))
        if not isinstance(v, View):
            raise Und("assignment of %s to a string_view" % type(v).__name__)
        obj.buf, obj.off, obj.n = v.buf, v.off, v.n
        return
    raise Und("assignment to an object of kind %s" % type(obj).__name__)


def view_cells(v):
    if v.n == 0:
        return []
    if v.buf is None or v.off < 0 or v.off + v.n > len(v.buf.cells):
        raise MemFault("a string_view of %d byte(s) at offset %d reaches outside its %s of %d byte(s)"
                       % (v.n, v.off, v.buf.what if v.buf else "null buffer", len(v.buf.cells) if v.buf else 0))
    return v.buf.cells[v.off:v.off + v.n]


def cstr_cells(p):
    out = []
    i = p.off
    while True:
        c = load(p.buf, i)
        if not isinstance(c, int):
            raise Und("symbolic byte in a C string")
        if c == 0:
            return out
        out.append(c)
        i += 1


def range_cells(a, b):
    if not isinstance(a, Ptr) or not isinstance(b, Ptr) or a.buf is not b.buf:
        raise Und("iterator pair into different objects")
    if b.off < a.off:
        raise MemFault("a range is built whose end (%d) lies before its beginning (%d)" % (b.off, a.off))
    if a.off == b.off:
        return []
    if a.buf is None or a.off < 0 or b.off > len(a.buf.cells):
        raise MemFault("a range [%d, %d) reaches outside its %s of %d element(s)" % (a.off, b.off, a.buf.what if a.buf else "null", len(a.buf.cells) if a.buf else 0))
    return a.buf.cells[a.off:b.off]


def ptr_n_cells(p, n):
    if not isinstance(p, Ptr) or not isinstance(n, int):
        raise Und("(pointer, length) expected")
    return range_cells(p, Ptr(p.buf, p.off + n))


def all_int(cells):
    if not all(isinstance(c, int) for c in cells):
        raise Und("symbolic bytes in a string operation")
    return cells


def find_sub(hay, needle, pos):
    hay, needle = all_int(hay), all_int(needle)
    if pos > len(hay):
        return NPOS
    r = bytes(hay).find(bytes(needle), pos)
    return NPOS if r < 0 else r


def rfind_sub(hay, needle, pos):
    hay, needle = all_int(hay), all_int(needle)
    end = len(hay) if pos >= NPOS or pos + len(needle) > len(hay) else pos + len(needle)
    r = bytes(hay).rfind(bytes(needle), 0, end)
    return NPOS if r < 0 else r


def find_of(hay, chars, pos, first=True, member=True):
    hay, chars = all_int(hay), set(all_int(chars))
    if first:
        for i in range(min(pos, len(hay) + 1) if pos < NPOS else len(hay), len(hay)):
            if (hay[i] in chars) == member:
                return i
        return NPOS
    if not hay:
        return NPOS
    for i in range(min(pos, len(hay) - 1), -1, -1):
        if (hay[i] in chars) == member:
            return i
    return NPOS


def c_case(name, v):
    """tolower / toupper of the "C" locale; the argument must be representable as unsigned char or be EOF"""
    if not -1 <= v <= 255:
        raise Und("%s(%d): argument not representable as unsigned char" % (name, v))
    if name == "tolower" and 65 <= v <= 90:
        return v + 32
    if name == "toupper" and 97 <= v <= 122:
        return v - 32
    return v


_PTR_OPS = ("*", "++", "--", "+", "-", "+=", "-=", "[]", "==", "!=", "<", ">", "<=", ">=", "->")


class Mach:
    def __init__(self, tu, budget=500000):
        self.tu = tu
        self.steps = 0
        self.budget = budget
        self.depth = 0

    def tick(self):
        self.steps += 1
        if self.steps > self.budget:
            raise Hang("no result after %d evaluation steps" % self.budget)

    # ---------------------------------------------------------------- calls
    def invoke(self, fn, args, caps=None):
        if fn.body is None:
            raise Und("%s has no body in this translation unit" % fn.qname)
        if len(args) != len(fn.params):
            raise Und("%s called with %d argument(s)" % (fn.qname, len(args)))
        self.depth += 1
        if self.depth > 40:
            raise Und("call depth")
        env = dict(caps) if caps else {}
        for p, a in zip(fn.params, args):
            if a is DEFAULT:
                raise Und("default argument of %s" % fn.qname)
            env[p["did"]] = conv(a, p.get("ty")) if isinstance(a, (int, BV)) else a
        try:
            self.exec(fn.body, env)
            return None
        except _Ret as r:
            v = r.v
            return conv(v, fn.d.get("ret")) if isinstance(v, int) and not isinstance(v, bool) else v
        finally:
            self.depth -= 1
            if caps and any(env.get(d) is not v for d, v in caps.items()):
                raise Und("%s: a lambda changes a variable it captured by copy" % fn.loc)

    def apply(self, f, args):
        if isinstance(f, Lam):
            return self.invoke(f.fn, [fresh(a) for a in args], f.caps)
        if isinstance(f, Native) and len(args) == 1 and isinstance(args[0], int):
            return c_case(f.name, args[0])
        raise Und("call of a %s" % type(f).__name__)

    def bind_args(self, callee, nodes, env):
        out = []
        for p, a in zip(callee.params, nodes):
            ty = (p.get("ty") or "").strip()
            if a is not None and a["k"] == "DefaultArg":
                out.append(DEFAULT)
            elif ty.endswith("&"):
                if a.get("lv") and not ty.endswith("&&"):
                    lv = self.lval(a, env)          # the parameter names the caller's object
                    v = lv.get()
                    out.append(v if isinstance(v, (Str, Vec, Stream, Lam)) else Alias(lv))
                else:
                    v = self.eval(a, env)
                    out.append(unmoved(v))
            else:
                v = self.eval(a, env)
                if isinstance(v, Moved):
                    v = take(v)
                elif isinstance(v, Str):
                    v = Str(v.buf.cells)
                elif isinstance(v, Vec):
                    c = Vec((), v.elem)
                    c.buf.cells = [cell_of(c.buf, x) for x in v.buf.cells]
                    v = c
                out.append(fresh(v))
        return out

    # ---------------------------------------------------------------- statements
    def exec(self, s, env):
        if s is None:
            return
        self.tick()
        k = s["k"]
        if k == "CompoundStmt":
            for c in kids(s):
                self.exec(c, env)
        elif k == "DeclStmt":
            for v in kids(s):
                self.decl(v, env)
        elif k == "IfStmt":
            for key in ("init", "condvar"):
                if isinstance(s.get(key), dict):
                    self.exec(s[key], env) if s[key]["k"] != "VarDecl" else self.decl(s[key], env)
            c, t, e = (kids(s) + [None, None])[:3]
            self.exec(t if truthy(self.eval(c, env)) else e, env)
        elif k == "WhileStmt":
            c, body = kids(s)
            while truthy(self.eval(c, env)):
                try:
                    self.exec(body, env)
                except _Brk:
                    break
                except _Cont:
                    pass
        elif k == "DoStmt":
            body, c = kids(s)
            while True:
                try:
                    self.exec(body, env)
                except _Brk:
                    break
                except _Cont:
                    pass
                if not truthy(self.eval(c, env)):
                    break
        elif k == "ForStmt":
            init, c, inc, body = kids(s)
            self.exec(init, env)
            while c is None or truthy(self.eval(c, env)):
                self.tick()
                try:
                    self.exec(body, env)
                except _Brk:
                    break
                except _Cont:
                    pass
                if inc is not None:
                    self.eval(inc, env)
        elif k == "CXXForRangeStmt":
            self.for_range(s, env)
        elif k == "SwitchStmt":
            self.switch(s, env)
        elif k == "ReturnStmt":
            raise _Ret(self.ret_value(kids(s)[0], env) if kids(s) and kids(s)[0] is not None else None)
        elif k == "BreakStmt":
            raise _Brk()
        elif k == "ContinueStmt":
            raise _Cont()
        elif k == "NullStmt":
            pass
        elif k == "CXXThrowExpr":
            raise Thrown()
        elif k in ("GotoStmt", "LabelStmt", "CXXTryStmt", "CaseStmt", "DefaultStmt", "AttributedStmt"):
            raise Und("statement %s at line %s" % (k, s.get("l")))
        else:
            self.eval(s, env)

    def ret_value(self, e, env):
        v = self.eval(e, env)
        return take(v) if isinstance(v, Moved) else v

    def decl(self, v, env):
        if v["k"] != "VarDecl":
            raise Und("declaration %s" % v["k"])
        ty = v.get("ty") or ""
        init = kids(v)[0] if kids(v) else None
        if v.get("static") and "const" not in ty.replace("*", " * ").replace("[", " [").split():
            raise Und("mutable static local %s" % v.get("name"))
        if init is None:
            kd = kind_of_type(ty)
            env[v["did"]] = Str() if kd == "str" else View(None, 0, 0) if kd == "view" else Vec((), vec_elem(ty)) if kd in ("vec", "svec") else \
                Stream() if kd == "stream" else UNINIT
            return
        if "[" in ty and (init["k"] == "InitListExpr" or "bytes" in init):
            env[v["did"]] = self.make_array(ty, init, env, v.get("name"))
            return
        if ty.strip().endswith("&"):
            if init.get("lv") and not ty.strip().endswith("&&"):
                lv = self.lval(init, env)            # the reference names that object
                val = lv.get()
                env[v["did"]] = val if isinstance(val, (Str, Vec, Stream, Lam)) else Alias(lv)
            else:
                env[v["did"]] = unmoved(self.eval(init, env))
            return
        val = self.eval(init, env)
        if isinstance(val, Moved):
            val = take(val)
        env[v["did"]] = fresh(conv(val, ty))

    def make_array(self, ty, init, env, name):
        """array object for `T name[N] = {...}` / `= "..."`; constant arrays are tables"""
        dim = ty[ty.index("[") + 1:ty.index("]")] if "[" in ty and "]" in ty else ""
        n = int(dim) if dim.isdigit() else None
        cells = list(init["bytes"]) if "bytes" in init else [self.eval(c, env) for c in kids(init)]
        if n is not None and len(cells) < n:
            cells += [0] * (n - len(cells))
        elt = ty[:ty.index("[")] if "[" in ty else ty
        it = int_type(elt)
        if it is None or not all(isinstance(c, int) for c in cells):
            raise Und("array %s of %s" % (name, elt))
        return Ptr(Buf([c & ((1 << it[0]) - 1) for c in cells], "array %s" % name, kind="bytes" if it[0] == 8 else "vals",
                       table="const" in elt.split()), 0)

    def for_range(self, s, env):
        ch = kids(s)
        if len(ch) < 3:
            raise Und("range-for shape")
        rng, var, body = ch[0], ch[1], ch[2]
        r = self.eval(rng, env)
        if isinstance(r, (Str, Vec)):
            buf, lo, hi = r.buf, 0, None
        elif isinstance(r, View):
            buf, lo, hi = r.buf, r.off, r.off + r.n
        else:
            raise Und("range-for over %s" % type(r).__name__)
        if var is None or var["k"] != "VarDecl":
            raise Und("range-for variable")
        i = lo
        ety = (var.get("ty") or "")
        while i < (hi if hi is not None else len(buf.cells)):
            self.tick()
            lv = CellLV(buf, i, ety)
            if ety.strip().endswith("&") and not ety.strip().startswith("const "):
                env[var["did"]] = Alias(lv) if buf.kind != "objs" else lv.get()
            else:
                x = lv.get()
                env[var["did"]] = x if buf.kind != "objs" or ety.strip().endswith("&") else cell_of(buf, x)
            try:
                self.exec(body, env)
            except _Brk:
                break
            except _Cont:
                pass
            i += 1

    def switch(self, s, env):
        for key in ("init", "condvar"):
            if isinstance(s.get(key), dict):
                raise Und("switch with init statement")
        c, body = kids(s)
        v = self.eval(c, env)
        if not isinstance(v, int):
            raise Und("switch on %s" % type(v).__name__)
        flat = []

        def add(x):
            if x is None:
                return
            if x["k"] == "CaseStmt":
                if x.get("val") is None or len(kids(x)) != 1:
                    raise Und("case label without a constant / case range")
                flat.append(("case", int(x["val"])))
                add(kids(x)[0])
            elif x["k"] == "DefaultStmt":
                flat.append(("default", None))
                add(kids(x)[0])
            else:
                if any(y["k"] in ("CaseStmt", "DefaultStmt") for y in ir.walk(x) if y is not x and y["k"] != "SwitchStmt") and x["k"] != "SwitchStmt":
                    raise Und("case label nested inside a statement")
                flat.append(("stmt", x))
        for x in (kids(body) if body is not None and body["k"] == "CompoundStmt" else [body]):
            add(x)
        start = None
        for i, e in enumerate(flat):
            if e[0] == "case" and e[1] == v:
                start = i
                break
        if start is None:
            for i, e in enumerate(flat):
                if e[0] == "default":
                    start = i
                    break
        if start is None:
            return
        try:
            for e in flat[start:]:
                if e[0] == "stmt":
                    self.exec(e[1], env)
        except _Brk:
            pass

    # ---------------------------------------------------------------- lvalues
    def lval(self, e, env):
        self.tick()
        k = e["k"]
        if k == "DeclRefExpr":
            did = e["ref"]["id"]
            if did not in env:
                raise Und("lvalue of %s" % e["ref"].get("name"))
            v = env[did]
            if isinstance(v, (Str, Vec, Stream)):
                return ObjLV(v)
            return VarLV(env, did)
        if k == "UnaryOperator":
            op = e.get("op")
            if op == "*":
                p = self.eval(kids(e)[0], env)
                if isinstance(p, Ptr):
                    return CellLV(p.buf, p.off, e.get("ty"))
                if isinstance(p, Ref):
                    if p.obj is None:
                        raise MemFault("a null pointer is dereferenced")
                    return ObjLV(p.obj)
                raise Und("dereference of %s" % type(p).__name__)
            if op in ("++", "--") and not e.get("postfix"):
                lv = self.lval(kids(e)[0], env)
                lv.set(self.step(lv.get(), 1 if op == "++" else -1, e.get("ty")))
                return lv
        if k == "ArraySubscriptExpr":
            a, b = self.eval(kids(e)[0], env), self.eval(kids(e)[1], env)
            if isinstance(b, Ptr):
                a, b = b, a
            if isinstance(a, Ptr) and isinstance(b, int):
                return CellLV(a.buf, a.off + b, e.get("ty"))
            raise Und("subscript of %s by %s" % (type(a).__name__, type(b).__name__))
        if k in ("BinaryOperator", "CompoundAssignOperator"):
            op = e.get("op")
            if op == ",":
                self.eval(kids(e)[0], env)
                return self.lval(kids(e)[1], env)
            if op == "=" or k == "CompoundAssignOperator":
                self.eval(e, env)
                return self.lval(kids(e)[0], env) if self.pure_lvalue(kids(e)[0]) else self._bad("assignment result as lvalue")
        if k == "ConditionalOperator":
            c, a, b = kids(e)
            return self.lval(a if truthy(self.eval(c, env)) else b, env)
        if k in ("ImplicitCastExpr", "CXXStaticCastExpr", "CStyleCastExpr", "CXXConstCastExpr", "ParenExpr", "MaterializeTemporaryExpr",
                 "ExprWithCleanups", "CXXBindTemporaryExpr") and kids(e):
            if k == "ImplicitCastExpr" and e.get("cast") not in ("NoOp", "DerivedToBase", "UncheckedDerivedToBase", "LValueToRValue", None):
                raise Und("lvalue through cast %s" % e.get("cast"))
            return self.lval(kids(e)[0], env)
        if "callee" in e:
            r = self.call(e, env, want_lv=True)
            if isinstance(r, (VarLV, CellLV, ObjLV)):
                return r
            if isinstance(r, (Str, Vec, Stream)):
                return ObjLV(r)
            raise Und("call result of %s used as an lvalue" % e["callee"].get("qname"))
        raise Und("lvalue of %s at line %s" % (k, e.get("l")))

    @staticmethod
    def pure_lvalue(e):
        while e is not None and e["k"] in ("ImplicitCastExpr", "ParenExpr") and kids(e):
            e = kids(e)[0]
        return e is not None and e["k"] == "DeclRefExpr"

    @staticmethod
    def _bad(msg):
        raise Und(msg)

    def step(self, v, d, ty):
        if isinstance(v, Ptr):
            return Ptr(v.buf, v.off + d)
        if isinstance(v, int):
            return conv(v + d, ty)
        if v is UNINIT:
            raise Und("read of an uninitialised variable")
        raise Und("++/-- on %s" % type(v).__name__)

    # ---------------------------------------------------------------- expressions
    def eval(self, e, env):
        if e is None:
            raise Und("missing expression")
        self.tick()
        k = e["k"]
        if "cval" in e and k != "VarDecl":
            try:
                return conv(int(e["cval"]), e.get("ty"))
            except (TypeError, ValueError):
                pass
        if k in ("IntegerLiteral", "CharacterLiteral", "CXXBoolLiteralExpr"):
            return int(e["val"])
        if k == "DeclRefExpr":
            did = e["ref"]["id"]
            if did in env:
                v = env[did]
                if isinstance(v, Alias):
                    v = v.lv.get()
                if v is UNINIT:
                    raise Und("read of uninitialised %s" % e["ref"].get("name"))
                return v
            if e["ref"].get("kind") == "fn":
                f = self.tu.by_did.get(did)
                if f is not None and f.body is not None and f.kind == "fn":
                    return Lam(f)
                if e["ref"].get("qname") in ("tolower", "toupper", "std::tolower", "std::toupper") and "(int)" in (e.get("ty") or ""):
                    return Native(e["ref"]["name"])
                raise Und("function %s used as a value" % e["ref"].get("qname"))
            if e["ref"].get("kind") == "global" and e["ref"].get("qname"):
                for t in getattr(self.tu, "tables", []):
                    if t.get("qname") == e["ref"]["qname"] and "const" in (t.get("elem_ty") or "").split() and int_type(t.get("elem_ty")):
                        bits = int_type(t["elem_ty"])[0]
                        vals = [int(x) & ((1 << bits) - 1) for x in t.get("values", [])]
                        return Ptr(Buf(vals, "table %s" % e["ref"].get("name"), kind="bytes" if bits == 8 else "vals", table=True), 0)
            raise Und("value of %s (%s)" % (e["ref"].get("name"), e["ref"].get("kind")))
        if k == "StringLiteral" or (k != "VarDecl" and "bytes" in e):
            return Ptr(Buf(list(e["bytes"]), "string literal", zterm=True, table=True), 0)
        if k in ("CXXNullPtrLiteralExpr", "NullPtr", "GNUNullExpr"):
            return Ptr(None, 0)
        if k in ("ImplicitCastExpr", "CStyleCastExpr", "CXXStaticCastExpr", "CXXFunctionalCastExpr", "CXXReinterpretCastExpr", "CXXConstCastExpr"):
            v = self.eval(kids(e)[0], env)
            c = e.get("cast")
            if c == "NullToPointer":
                return Ptr(None, 0)
            if c in ("IntegralToBoolean",):
                return int(truthy(v))
            if c == "PointerToBoolean":
                return int(truthy(v))
            if c in ("IntegralToFloating", "FloatingToIntegral", "FloatingCast", "IntegralToPointer", "PointerToIntegral"):
                raise Und("cast %s" % c)
            return conv(v, e.get("ty"))
        if k in ("ParenExpr", "MaterializeTemporaryExpr", "ExprWithCleanups", "CXXBindTemporaryExpr", "ConstantExpr", "SubstNonTypeTemplateParmExpr"):
            return self.eval(kids(e)[0], env)
        if k == "UnaryOperator":
            return self.unary(e, env)
        if k == "BinaryOperator":
            return self.binary(e, env)
        if k == "CompoundAssignOperator":
            op = e["op"][:-1]
            rhs = self.eval(kids(e)[1], env)           # the right operand is sequenced first (C++17)
            lv = self.lval(kids(e)[0], env)
            cur = lv.get()
            if cur is UNINIT:
                raise Und("read of an uninitialised variable")
            r = self.arith(op, conv(cur, e.get("cty")) if not isinstance(cur, Ptr) else cur, rhs, e.get("cty") or e.get("ty"))
            r = conv(r, e.get("ty"))
            lv.set(r)
            return r
        if k == "ConditionalOperator":
            c, a, b = kids(e)
            return self.eval(a if truthy(self.eval(c, env)) else b, env)
        if k == "ArraySubscriptExpr":
            a, b = self.eval(kids(e)[0], env), self.eval(kids(e)[1], env)
            if isinstance(b, Ptr):
                a, b = b, a
            if isinstance(a, Ptr) and isinstance(b, (BV, Letter)):
                return self.table_read(a, b, e.get("ty"))
            if isinstance(a, Ptr) and isinstance(b, int):
                return load(a.buf, a.off + b, e.get("ty"))
            raise Und("subscript of %s by %s" % (type(a).__name__, type(b).__name__))
        if k == "MemberExpr" and kids(e):
            base = self.eval(kids(e)[0], env)
            if isinstance(base, Pair) and e.get("member") in ("first", "second"):
                return getattr(base, e["member"])
            raise Und("member %s of %s" % (e.get("member"), type(base).__name__))
        if k == "LambdaExpr":
            caps = {}
            for c in e.get("captures") or []:
                did = c.get("id")
                if did is None or did not in env:
                    raise Und("lambda capture of %s" % c.get("name"))
                cur = env[did]
                if c.get("byref"):
                    caps[did] = cur if isinstance(cur, (Str, Vec, Stream, Lam, Alias)) else Alias(VarLV(env, did))
                else:
                    if isinstance(cur, Alias):
                        cur = cur.lv.get()
                    if cur is UNINIT:
                        raise Und("lambda captures an uninitialised variable")
                    if isinstance(cur, Str):
                        cur = Str(cur.buf.cells)
                    elif isinstance(cur, Vec):
                        cp = Vec((), cur.elem)
                        cp.buf.cells = [cell_of(cp.buf, x) for x in cur.buf.cells]
                        cur = cp
                    elif not isinstance(cur, (int, Ptr, View, Ref, Lam, Native)):
                        raise Und("lambda captures a %s by copy" % type(cur).__name__)
                    caps[did] = fresh(cur)
            f = self.tu.by_did.get(e.get("fn"))
            if f is None:
                raise Und("lambda body not found")
            return Lam(f, caps)
        if k == "DefaultArg":
            return DEFAULT
        if k == "CXXThrowExpr":
            raise Thrown()
        if k == "InitListExpr":
            if "[" in (e.get("ty") or ""):
                return self.make_array(e["ty"], e, env, "(initialiser list)")
            if int_type(e.get("ty")) and len(kids(e)) <= 1:          # T x{} is value-initialised, T x{v} holds v
                return conv(self.eval(kids(e)[0], env), e.get("ty")) if kids(e) else 0
            raise Und("initialiser list of type %s" % e.get("ty"))
        if "callee" in e:
            r = self.call(e, env)
            if isinstance(r, (VarLV, CellLV, ObjLV)):
                r = r.get()
            return r
        raise Und("expression %s at line %s" % (k, e.get("l")))

    def table_read(self, p, idx, ty):
        buf = p.buf
        if buf is None or not buf.table or p.off != 0:
            raise Und("symbolic index into a non-constant array")
        if isinstance(idx, Letter):
            if len(buf.cells) != 256:
                raise Und("input letter used as index of a table with %d entries" % len(buf.cells))
            self.letter_tables = getattr(self, "letter_tables", [])
            if not any(b is buf for b in self.letter_tables):
                self.letter_tables.append(buf)
            return BV([("u%d" % idx.k, j) if j < 6 else 0 for j in range(W)])
        if idx.known():
            return load(buf, idx.value(), ty)
        return Enc(buf, idx)

    def unary(self, e, env):
        op = e.get("op")
        a = kids(e)[0]
        if op == "*":
            p = self.eval(a, env)
            if isinstance(p, Ptr):
                return load(p.buf, p.off, e.get("ty"))
            if isinstance(p, Ref):
                if p.obj is None:
                    raise MemFault("a null pointer is dereferenced")
                return p.obj
            raise Und("dereference of %s" % type(p).__name__)
        if op == "&":
            inner = a
            while inner["k"] in ("ParenExpr",) and kids(inner):
                inner = kids(inner)[0]
            if inner["k"] in ("ArraySubscriptExpr",) or (inner["k"] == "UnaryOperator" and inner.get("op") == "*") or \
                    ("callee" in inner and inner.get("op") in ("[]", "*")):
                lv = self.lval(inner, env)
                if isinstance(lv, CellLV):
                    return Ptr(lv.buf, lv.off)
                if isinstance(lv, ObjLV):
                    return Ref(lv.obj)
            v = self.eval(a, env)
            if isinstance(v, (Str, Vec, Stream, View)):
                return Ref(v)
            if isinstance(v, (Lam, Native)):
                return v
            raise Und("address of %s" % type(v).__name__)
        if op in ("++", "--"):
            lv = self.lval(a, env)
            old = lv.get()
            new = self.step(old, 1 if op == "++" else -1, e.get("ty") if not e.get("postfix") else a.get("ty"))
            lv.set(new)
            return old if e.get("postfix") else new
        v = self.eval(a, env)
        if op == "!":
            return int(not truthy(v))
        if isinstance(v, int):
            if op == "-":
                return conv(-v, e.get("ty"))
            if op == "+":
                return conv(v, e.get("ty"))
            if op == "~":
                return conv(~v, e.get("ty"))
        raise Und("unary %s on %s" % (op, type(v).__name__))

    def binary(self, e, env):
        op = e["op"]
        l, r = kids(e)
        if op == ",":
            self.eval(l, env)
            return self.eval(r, env)
        if op == "&&":
            return int(truthy(self.eval(l, env)) and truthy(self.eval(r, env)))
        if op == "||":
            return int(truthy(self.eval(l, env)) or truthy(self.eval(r, env)))
        if op == "=":
            v = self.eval(r, env)
            lv = self.lval(l, env)
            if isinstance(lv, ObjLV):
                lv.set(v)
                return lv.obj
            if isinstance(v, Moved):
                v = take(v)
            v = fresh(conv(v, l.get("ty")))
            lv.set(v)
            return v
        a, b = self.eval(l, env), self.eval(r, env)
        return self.arith(op, a, b, e.get("ty"))

    def arith(self, op, a, b, ty):
        if a is UNINIT or b is UNINIT:
            raise Und("read of an uninitialised variable")
        if isinstance(a, bool):
            a = int(a)
        if isinstance(b, bool):
            b = int(b)
        if isinstance(a, Ptr) or isinstance(b, Ptr):
            return self.ptr_arith(op, a, b)
        if isinstance(a, (BV, Letter, Enc)) or isinstance(b, (BV, Letter, Enc)):
            r = bv_op(op, a, b, ty)
            if r is not None:
                return r
            a = a.value() if isinstance(a, BV) else a
            b = b.value() if isinstance(b, BV) else b
        if not isinstance(a, int) or not isinstance(b, int):
            raise Und("operator %s on %s and %s" % (op, type(a).__name__, type(b).__name__))
        if op == "+":
            r = a + b
        elif op == "-":
            r = a - b
        elif op == "*":
            r = a * b
        elif op in ("/", "%"):
            if b == 0:
                raise MemFault("division by zero")
            q = abs(a) // abs(b)
            if (a < 0) != (b < 0):
                q = -q
            r = q if op == "/" else a - q * b
        elif op == "&":
            r = a & b
        elif op == "|":
            r = a | b
        elif op == "^":
            r = a ^ b
        elif op in ("<<", ">>"):
            it = int_type(ty)
            if b < 0 or (it and b >= it[0]):
                raise Und("shift by %d" % b)
            r = a << b if op == "<<" else a >> b
        elif op == "==":
            return int(a == b)
        elif op == "!=":
            return int(a != b)
        elif op == "<":
            return int(a < b)
        elif op == "<=":
            return int(a <= b)
        elif op == ">":
            return int(a > b)
        elif op == ">=":
            return int(a >= b)
        elif op == "<=>":
            raise Und("three-way comparison")
        else:
            raise Und("operator %s" % op)
        return conv(r, ty)

    def ptr_arith(self, op, a, b):
        if isinstance(a, Ptr) and isinstance(b, int):
            if op == "+":
                return Ptr(a.buf, a.off + b)
            if op == "-":
                return Ptr(a.buf, a.off - b)
        if isinstance(a, int) and isinstance(b, Ptr) and op == "+":
            return Ptr(b.buf, b.off + a)
        if isinstance(a, Ptr) and isinstance(b, Ptr):
            if a.buf is not b.buf:
                if op in ("==", "!=") and (a.buf is None or b.buf is None):
                    return int((op == "==") == (a.buf is b.buf))
                raise Und("pointers into different objects combined with %s" % op)
            if op == "-":
                return a.off - b.off
            if op in ("==", "!=", "<", "<=", ">", ">="):
                return int({"==": a.off == b.off, "!=": a.off != b.off, "<": a.off < b.off, "<=": a.off <= b.off,
                            ">": a.off > b.off, ">=": a.off >= b.off}[op])
        raise Und("pointer arithmetic %s on %s and %s" % (op, type(a).__name__, type(b).__name__))

    # ---------------------------------------------------------------- calls of library and project functions
    def call(self, e, env, want_lv=False):
        c = e["callee"]
        q = c.get("qname") or ""
        name = c.get("name") or ""
        args = kids(e)
        k = e["k"]
        if k in ("CXXConstructExpr", "CXXTemporaryObjectExpr"):
            return self.construct(e, env)
        if k == "CXXOperatorCallExpr":
            return self.opcall(e, env)
        # project functions with a body are interpreted (string_view's own members are modelled natively)
        callee = self.tu.by_did.get(c.get("did"))
        if callee is not None and callee.body is not None and q.startswith("tlx::") and not q.startswith("tlx::StringView::") \
                and not e.get("member_call") and callee.kind not in ("ctor", "dtor"):
            return self.invoke(callee, self.bind_args(callee, args, env))
        if e.get("member_call"):
            obj = self.eval(args[0], env)
            if isinstance(obj, Ref):
                if obj.obj is None:
                    raise MemFault("a member function is called through a null pointer")
                obj = obj.obj
            obj = unmoved(obj)
            rest = args[1:]
            if isinstance(obj, Str):
                return self.str_method(obj, name, rest, env, e)
            if isinstance(obj, View):
                return self.view_method(obj, name, rest, env, e)
            if isinstance(obj, Vec):
                return self.vec_method(obj, name, rest, env, e)
            if isinstance(obj, Stream):
                if name == "str" and not rest:
                    return Str(obj.s.buf.cells)
                raise Und("stream member %s" % name)
            if isinstance(obj, Ptr) and name == "base" and not rest:
                return obj
            raise Und("member %s of %s" % (q, type(obj).__name__))
        return self.free_call(q, name, args, env, e)

    def vals(self, nodes, env):
        out = [self.eval(a, env) for a in nodes]
        while out and out[-1] is DEFAULT:
            out.pop()
        if any(v is DEFAULT for v in out):
            raise Und("default argument in the middle of an argument list")
        return out

    def construct(self, e, env):
        kd = kind_of_type(e.get("ty"))
        args = kids(e)
        if kd == "str":
            return self.make_str(self.vals(args, env))
        if kd == "view":
            return self.make_view(self.vals(args, env))
        if kd == "vec":
            vs = self.vals(args, env)
            el = vec_elem(e.get("ty"))
            if not vs:
                return Vec((), el)
            if len(vs) == 1 and isinstance(unmoved(vs[0]), Vec):
                if isinstance(vs[0], Moved):
                    return take(vs[0])
                r = Vec((), vs[0].elem)
                r.buf.cells = [cell_of(r.buf, x) for x in vs[0].buf.cells]
                return r
            if len(vs) in (1, 2) and isinstance(vs[0], int) and not isinstance(vs[0], bool) and el in ("int", "str", "view"):
                if vs[0] > 1 << 12:
                    raise MemFault("a std::vector of %d elements is requested" % vs[0])
                r = Vec((), el)
                r.buf.cells = [cell_of(r.buf, self.make_elem(r, [unmoved(x) for x in vs[1:]]) if el != "int" or len(vs) == 2 else 0) for _ in range(vs[0])]
                return r
            raise Und("std::vector constructor with %d argument(s)" % len(vs))
        if kd == "svec":
            vs = self.vals(args, env)
            el = vec_elem(e.get("ty"))
            if el != "int" or "SimpleVectorMode::Normal" not in (e.get("ty") or "") and "," in (e.get("ty") or ""):
                raise Und("construction of %s" % e.get("ty"))
            if not vs:
                return Vec((), el)
            if len(vs) == 1 and isinstance(vs[0], Moved) and isinstance(vs[0].obj, Vec):
                return take(vs[0])
            if len(vs) == 1 and isinstance(vs[0], int) and not isinstance(vs[0], bool):
                if vs[0] > 1 << 12:
                    raise MemFault("a simple_vector of %d elements is requested" % vs[0])
                r = Vec((), el)
                r.buf.cells = [UNINIT] * vs[0]          # new T[n]: the elements of an integer type are not initialised
                r.buf.what = "tlx::simple_vector"
                return r
            raise Und("simple_vector constructor (%s)" % ", ".join(type(v).__name__ for v in vs))
        if kd == "stream":
            if args and any(a is not None and a["k"] != "DefaultArg" for a in args):
                raise Und("stream constructor with arguments")
            return Stream()
        if len(args) == 1:
            v = self.eval(args[0], env)
            if isinstance(v, (Lam, Ptr, int)):
                return v
        raise Und("construction of %s" % e.get("ty"))

    def make_str(self, vs):
        if not vs:
            return Str()
        a = vs[0]
        if len(vs) == 1:
            if isinstance(a, Moved):
                return take(a) if isinstance(a.obj, Str) else self._bad("std::string from moved %s" % type(a.obj).__name__)
            if isinstance(a, Str):
                return Str(a.buf.cells)
            if isinstance(a, View):
                return Str(view_cells(a))
            if isinstance(a, Ptr):
                return Str(cstr_cells(a))
        if len(vs) == 2:
            b = vs[1]
            if isinstance(a, Ptr) and isinstance(b, Ptr):
                return Str(range_cells(a, b))
            if isinstance(a, Ptr) and isinstance(b, int):
                return Str(ptr_n_cells(a, b))
            if isinstance(a, int) and isinstance(b, int):
                if a > 1 << 20:
                    raise MemFault("a std::string of %d characters is requested" % a)
                return Str([b & 0xFF] * a)
        if len(vs) in (2, 3) and isinstance(a, Str) and all(isinstance(x, int) for x in vs[1:]):
            pos = vs[1]
            n = vs[2] if len(vs) == 3 else NPOS
            if pos > len(a.buf.cells):
                raise Thrown()
            return Str(a.buf.cells[pos:pos + min(n, len(a.buf.cells))])
        raise Und("std::string constructor (%s)" % ", ".join(type(v).__name__ for v in vs))

    def make_view(self, vs):
        if not vs:
            return View(None, 0, 0)
        a = vs[0]
        if len(vs) == 1:
            a = unmoved(a)
            if isinstance(a, View):
                return fresh(a)
            if isinstance(a, Str):
                return View(a.buf, 0, len(a.buf.cells))
            if isinstance(a, Ptr):
                return View(a.buf, a.off, len(cstr_cells(a)))
        if len(vs) == 2:
            b = vs[1]
            if isinstance(a, Ptr) and isinstance(b, int):
                return View(a.buf, a.off, b)
            if isinstance(a, Ptr) and isinstance(b, Ptr):
                return View(a.buf, a.off, len(range_cells(a, b)))
        raise Und("string_view constructor (%s)" % ", ".join(type(v).__name__ for v in vs))

    def make_elem(self, vec, vs):
        if vec.elem == "str":
            return self.make_str(vs)
        if vec.elem == "view":
            return self.make_view(vs)
        if vec.elem == "int" and len(vs) == 1 and isinstance(vs[0], int):
            return vs[0]
        raise Und("element of std::vector<%s>" % vec.elem)

    # ---- std::string
    def seq_arg(self, vs, what):
        """the characters denoted by the trailing arguments (str | view | cstr | ptr,n | n,ch | ch)"""
        if len(vs) == 1:
            a = unmoved(vs[0])
            if isinstance(a, Str):
                return list(a.buf.cells)
            if isinstance(a, View):
                return view_cells(a)
            if isinstance(a, Ptr):
                return cstr_cells(a)
            if isinstance(a, (int, BV, Enc, Letter)):
                return [a]
        if len(vs) == 2:
            a, b = vs
            if isinstance(a, Ptr) and isinstance(b, int):
                return ptr_n_cells(a, b)
            if isinstance(a, Ptr) and isinstance(b, Ptr):
                return range_cells(a, b)
            if isinstance(a, int) and isinstance(b, int):
                if a > 1 << 20:
                    raise MemFault("%d characters are requested" % a)
                return [b] * a
        raise Und("%s (%s)" % (what, ", ".join(type(v).__name__ for v in vs)))

    def append(self, s, cells):
        if len(s.buf.cells) + len(cells) > 1 << 16:
            raise Hang("a string grows beyond %d characters" % (1 << 16))
        s.buf.cells.extend(cell_of(s.buf, c) for c in cells)

    def str_method(self, s, name, rest, env, e):
        cells = s.buf.cells
        n = len(cells)
        if name in ("size", "length"):
            return n
        if name == "empty":
            return int(n == 0)
        if name in ("reserve", "shrink_to_fit"):
            self.vals(rest, env)
            return None
        if name == "clear":
            s.buf.cells = []
            return None
        if name in ("begin", "cbegin", "data", "c_str"):
            return Ptr(s.buf, 0)
        if name in ("end", "cend"):
            return Ptr(s.buf, n)
        vs = self.vals(rest, env)
        if name == "push_back" and len(vs) == 1:
            self.append(s, [vs[0]])
            return None
        if name == "pop_back" and not vs:
            if not n:
                raise MemFault("pop_back() on an empty std::string")
            cells.pop()
            return None
        if name in ("append", "operator+="):
            self.append(s, self.seq_arg(vs, "std::string::append"))
            return s
        if name == "assign":
            s.buf.cells = [cell_of(s.buf, c) for c in self.seq_arg(vs, "std::string::assign")]
            return s
        if name == "resize" and vs and isinstance(vs[0], int):
            m = vs[0]
            if m > 1 << 20:
                raise MemFault("a std::string is resized to %d characters" % m)
            fill = vs[1] & 0xFF if len(vs) > 1 and isinstance(vs[1], int) else 0
            s.buf.cells = cells[:m] + [fill] * max(0, m - n)
            return None
        if name in ("at", "operator[]") and len(vs) == 1 and isinstance(vs[0], int):
            i = vs[0]
            if name == "at" and i >= n:
                raise Thrown()
            return CellLV(s.buf, i, e.get("ty"))
        if name == "front" and not vs:
            if not n:
                raise MemFault("front() of an empty std::string")
            return CellLV(s.buf, 0, e.get("ty"))
        if name == "back" and not vs:
            if not n:
                raise MemFault("back() of an empty std::string")
            return CellLV(s.buf, n - 1, e.get("ty"))
        if name in ("find", "rfind", "find_first_of", "find_last_of", "find_first_not_of", "find_last_not_of"):
            return self.find_family(cells, name, vs)
        if name == "substr":
            pos = vs[0] if vs else 0
            cnt = vs[1] if len(vs) > 1 else NPOS
            if pos > n:
                raise Thrown()
            return Str(cells[pos:pos + min(cnt, n)])
        if name == "erase" and vs and all(isinstance(v, Ptr) for v in vs) and len(vs) <= 2:
            if any(v.buf is not s.buf for v in vs):
                raise Und("std::string::erase with an iterator into another object")
            a = vs[0].off
            b = vs[1].off if len(vs) == 2 else a + 1
            if not 0 <= a <= b <= n or (len(vs) == 1 and a >= n):
                raise MemFault("std::string::erase of the iterator range [%d, %d) in a string of %d character(s)" % (a, b, n))
            del cells[a:b]
            return Ptr(s.buf, a)
        if name == "erase" and all(isinstance(v, int) for v in vs):
            pos = vs[0] if vs else 0
            cnt = vs[1] if len(vs) > 1 else NPOS
            if pos > n:
                raise Thrown()
            del cells[pos:pos + min(cnt, n)]
            return s
        if name == "replace" and len(vs) >= 3 and isinstance(vs[0], int) and isinstance(vs[1], int):
            pos, cnt = vs[0], vs[1]
            if pos > n:
                raise Thrown()
            new = [cell_of(s.buf, c) for c in self.seq_arg(vs[2:], "std::string::replace")]
            if n + len(new) > 1 << 16:
                raise Hang("a string grows beyond %d characters" % (1 << 16))
            cells[pos:pos + min(cnt, n)] = new
            return s
        if name == "insert" and len(vs) >= 2 and isinstance(vs[0], Ptr):
            if vs[0].buf is not s.buf or not 0 <= vs[0].off <= n:
                raise Und("std::string::insert at an iterator that is not into the string")
            new = [cell_of(s.buf, c) for c in self.seq_arg(vs[1:], "std::string::insert")]
            if n + len(new) > 1 << 16:
                raise Hang("a string grows beyond %d characters" % (1 << 16))
            cells[vs[0].off:vs[0].off] = new
            return Ptr(s.buf, vs[0].off)
        if name == "insert" and len(vs) >= 2 and isinstance(vs[0], int):
            pos = vs[0]
            if pos > n:
                raise Thrown()
            new = [cell_of(s.buf, c) for c in self.seq_arg(vs[1:], "std::string::insert")]
            if n + len(new) > 1 << 16:
                raise Hang("a string grows beyond %d characters" % (1 << 16))
            cells[pos:pos] = new
            return s
        if name == "compare":
            return self.compare(cells, vs)
        if name in ("starts_with", "ends_with") and len(vs) == 1:
            return self.affix(cells, name, vs[0])
        if name == "operator=" and len(vs) == 1:
            assign_obj(s, vs[0])
            return s
        if name == "swap" and len(vs) == 1 and isinstance(vs[0], Str):
            s.buf, vs[0].buf = vs[0].buf, s.buf
            return None
        raise Und("std::string::%s with (%s)" % (name, ", ".join(type(v).__name__ for v in vs)))

    def find_family(self, cells, name, vs):
        if not vs:
            raise Und("%s without arguments" % name)
        a = unmoved(vs[0])
        if isinstance(a, int):
            needle, rest = [a & 0xFF], vs[1:]
        elif isinstance(a, (Str, View)):
            needle, rest = (list(a.buf.cells) if isinstance(a, Str) else view_cells(a)), vs[1:]
        elif isinstance(a, Ptr):
            if len(vs) >= 3:
                needle, rest = ptr_n_cells(a, vs[2]), vs[1:2]
            else:
                needle, rest = cstr_cells(a), vs[1:]
        else:
            raise Und("%s(%s)" % (name, type(a).__name__))
        backwards = name in ("rfind", "find_last_of", "find_last_not_of")
        pos = rest[0] if rest else (NPOS if backwards else 0)
        if not isinstance(pos, int) or len(rest) > 1:
            raise Und("%s position argument" % name)
        if name == "find":
            return find_sub(cells, needle, pos)
        if name == "rfind":
            return rfind_sub(cells, needle, pos)
        return find_of(cells, needle, pos, first=not backwards, member="not" not in name)

    # ---- string_view
    def view_method(self, v, name, rest, env, e):
        if name in ("size", "length"):
            return v.n
        if name == "empty":
            return int(v.n == 0)
        if name in ("begin", "cbegin", "data"):
            return Ptr(v.buf, v.off)
        if name in ("end", "cend"):
            return Ptr(v.buf, v.off + v.n)
        vs = self.vals(rest, env)
        if name in ("at", "operator[]") and len(vs) == 1 and isinstance(vs[0], int):
            if name == "at" and vs[0] >= v.n:
                raise Thrown()
            if vs[0] >= v.n:
                raise MemFault("a string_view of %d byte(s) is read at index %d" % (v.n, vs[0]))
            return load(v.buf, v.off + vs[0], e.get("ty"))
        if name in ("front", "back") and not vs:
            if not v.n:
                raise MemFault("%s() of an empty string_view" % name)
            return load(v.buf, v.off + (0 if name == "front" else v.n - 1), e.get("ty"))
        if name == "substr":
            pos = vs[0] if vs else 0
            cnt = vs[1] if len(vs) > 1 else NPOS
            if pos > v.n:
                raise Thrown()
            return View(v.buf, v.off + pos, min(cnt, v.n - pos))
        if name in ("find", "rfind", "find_first_of", "find_last_of", "find_first_not_of", "find_last_not_of"):
            return self.find_family(view_cells(v), name, vs)
        if name in ("to_string", "str") and not vs:
            return Str(view_cells(v))
        if name == "compare":
            return self.compare(view_cells(v), vs)
        if name == "clear" and not vs:
            v.n = 0
            return None
        if name in ("remove_prefix", "remove_suffix") and len(vs) == 1 and isinstance(vs[0], int):
            if vs[0] > v.n:
                raise Und("string_view::%s(%d) on a view of %d byte(s)" % (name, vs[0], v.n))
            if name == "remove_prefix":
                v.off += vs[0]
            v.n -= vs[0]
            return None
        if name in ("starts_with", "ends_with") and len(vs) == 1:
            return self.affix(view_cells(v), name, vs[0])
        raise Und("string_view::%s with (%s)" % (name, ", ".join(type(x).__name__ for x in vs)))

    def compare(self, cells, vs):
        """basic_string / string_view ::compare: (x) | (pos1, n1, x) | (pos1, n1, x, pos2, n2) | (pos1, n1, ptr, n2)"""
        if len(vs) >= 3 and isinstance(vs[0], int) and isinstance(vs[1], int):
            if vs[0] > len(cells):
                raise Thrown()
            cells = cells[vs[0]:vs[0] + min(vs[1], len(cells))]
            vs = vs[2:]
        elif len(vs) != 1:
            raise Und("compare with %d argument(s)" % len(vs))
        if len(vs) == 3 and isinstance(unmoved(vs[0]), (Str, View)) and isinstance(vs[1], int) and isinstance(vs[2], int):
            o = self.seq_arg(vs[:1], "compare")
            if vs[1] > len(o):
                raise Thrown()
            o = o[vs[1]:vs[1] + min(vs[2], len(o))]
        elif len(vs) in (1, 2):
            o = self.seq_arg(vs, "compare")
        else:
            raise Und("compare argument shape")
        a, b = bytes(all_int(cells)), bytes(all_int(o))
        return (a > b) - (a < b)

    def affix(self, cells, name, x):
        x = unmoved(x)
        o = all_int(self.seq_arg([x & 0xFF if isinstance(x, int) else x], name))
        cells = all_int(cells)
        if len(o) > len(cells):
            return 0
        return int((cells[:len(o)] if name == "starts_with" else cells[len(cells) - len(o):]) == o)

    # ---- std::vector
    def vec_method(self, vec, name, rest, env, e):
        cells = vec.buf.cells
        n = len(cells)
        if name == "size":
            return n
        if name == "empty":
            return int(n == 0)
        if name == "clear":
            vec.buf.cells = []
            return None
        if name in ("reserve", "shrink_to_fit"):
            self.vals(rest, env)
            return None
        if name in ("begin", "cbegin", "data"):
            return Ptr(vec.buf, 0)
        if name in ("end", "cend"):
            return Ptr(vec.buf, n)
        vs = self.vals(rest, env)
        if name == "resize" and len(vs) == 1 and isinstance(vs[0], int):
            m = vs[0]
            if m > 1 << 12:
                raise MemFault("a std::vector is resized to %d elements" % m)
            vec.buf.cells = cells[:m] + [self.make_elem(vec, []) if vec.elem in ("str", "view") else 0 for _ in range(max(0, m - n))]
            return None
        if name in ("emplace_back", "push_back"):
            if n >= 1 << 12:
                raise Hang("a vector grows beyond %d elements" % (1 << 12))
            if name == "push_back" and len(vs) != 1:
                raise Und("push_back arity")
            if vec.elem == "?":
                raise Und("element type of the vector")
            el = self.make_elem(vec, vs)
            cells.append(el)
            return CellLV(vec.buf, len(cells) - 1)
        if name == "pop_back" and not vs:
            if not n:
                raise MemFault("pop_back() on an empty std::vector")
            cells.pop()
            return None
        if name in ("at", "operator[]") and len(vs) == 1 and isinstance(vs[0], int):
            if name == "at" and vs[0] >= n:
                raise Thrown()
            return CellLV(vec.buf, vs[0], e.get("ty"))
        if name in ("front", "back") and not vs:
            if not n:
                raise MemFault("%s() of an empty std::vector" % name)
            return CellLV(vec.buf, 0 if name == "front" else n - 1, e.get("ty"))
        if name == "operator=" and len(vs) == 1:
            assign_obj(vec, vs[0])
            return vec
        if name == "swap" and len(vs) == 1 and isinstance(vs[0], Vec) and vs[0].elem == vec.elem:
            vec.buf, vs[0].buf = vs[0].buf, vec.buf          # the storage changes hands: iterators follow it
            return None
        raise Und("std::vector::%s with (%s)" % (name, ", ".join(type(x).__name__ for x in vs)))

    # ---- overloaded operators
    def opcall(self, e, env):
        op = e.get("op")
        args = kids(e)
        c = e["callee"]
        name = c.get("name") or ""
        lv0 = None
        if op in ("++", "--", "+=", "-=", "="):
            lv0 = self.lval(args[0], env)
            first = lv0.get()
            if first is UNINIT and op != "=":
                raise Und("read of an uninitialised variable")
        else:
            first = self.eval(args[0], env)
        if isinstance(first, Ref) and op in ("->", "*"):
            return first.obj
        if isinstance(first, Lam) and op == "()":
            return self.invoke(first.fn, self.bind_args(first.fn, args[1:], env), first.caps)
        if isinstance(first, Ptr) and op in _PTR_OPS:
            if op == "*" and len(args) == 1:
                return CellLV(first.buf, first.off, e.get("ty"))
            if op == "->":
                return first
            if op in ("++", "--"):
                new = Ptr(first.buf, first.off + (1 if op == "++" else -1))
                lv0.set(new)
                return first if len(args) == 2 else lv0
            b = self.eval(args[1], env)
            if op == "[]":
                if not isinstance(b, int):
                    raise Und("iterator subscript")
                return CellLV(first.buf, first.off + b, e.get("ty"))
            if op in ("+=", "-="):
                new = self.ptr_arith(op[0], first, b)
                lv0.set(new)
                return lv0
            if isinstance(unmoved(b), (Str, View)):         # "literal" + std::string, C string == std::string
                return self.string_binop(op, first, unmoved(b), c)
            return self.ptr_arith(op, first, b)
        if op == "=" and len(args) == 2 and isinstance(first, View):
            assign_obj(first, self.eval(args[1], env))          # the string_view object itself changes (pointers to it stay valid)
            return lv0
        if op == "=" and len(args) == 2 and isinstance(lv0, (VarLV, CellLV)):
            v = unmoved(self.eval(args[1], env))
            if isinstance(v, (Ptr, int, View)):
                lv0.set(fresh(v))
                return lv0
            raise Und("operator= of %s" % type(v).__name__)
        if isinstance(first, int) and not isinstance(first, bool) and len(args) == 2 and op in ("+", "==", "!=", "<", ">", "<=", ">="):
            b = self.eval(args[1], env)
            if isinstance(b, Ptr) and op == "+":
                return self.ptr_arith("+", first, b)
            if isinstance(b, int) and op != "+" and "ordering" in (args[0].get("ty") or ""):
                return self.arith(op, first, b, "bool")          # (x <=> y) OP 0
            if not isinstance(unmoved(b), (Str, View)):
                raise Und("operator%s on an integer and %s" % (op, type(b).__name__))
            return self.string_binop(op, first, unmoved(b), c)
        obj = unmoved(first)
        if isinstance(obj, Stream) and op == "<<":
            x = self.eval(args[1], env)
            ty = args[1].get("ty") or ""
            if isinstance(x, int) and _bare(ty) not in ("char", "unsigned char", "signed char"):
                self.append(obj.s, list(str(x).encode()))
            else:
                self.append(obj.s, self.seq_arg([x], "operator<<"))
            return obj
        if isinstance(obj, Str):
            if op == "+=":
                self.append(obj, self.seq_arg(self.vals(args[1:], env), "std::string::operator+="))
                return obj
            if op == "=":
                assign_obj(obj, self.eval(args[1], env))
                return obj
            if op == "[]":
                return self.str_method(obj, "operator[]", args[1:], env, e)
        if isinstance(obj, View) and op == "[]":
            return self.view_method(obj, "operator[]", args[1:], env, e)
        if isinstance(obj, Vec):
            if op == "[]":
                return self.vec_method(obj, "operator[]", args[1:], env, e)
            if op == "=":
                assign_obj(obj, self.eval(args[1], env))
                return obj
        if len(args) == 2 and op in ("+", "==", "!=", "<", ">", "<=", ">=", "<=>"):
            b = unmoved(self.eval(args[1], env))
            if isinstance(obj, (Str, View, Ptr, int)) and isinstance(b, (Str, View, Ptr, int)) and (isinstance(obj, (Str, View)) or isinstance(b, (Str, View))):
                return self.string_binop(op, obj, b, c)
        raise Und("operator%s on %s (%s)" % (op, type(first).__name__, c.get("qname")))

    def string_binop(self, op, a, b, c):
        if op not in ("+", "==", "!=", "<", ">", "<=", ">=", "<=>"):
            raise Und("operator%s on strings (%s)" % (op, c.get("qname")))
        x, y = self.seq_arg([a], "string operand"), self.seq_arg([b], "string operand")
        if op == "+":
            return Str(x + y)
        x, y = bytes(all_int(x)), bytes(all_int(y))
        if op == "<=>":
            return (x > y) - (x < y)
        return int({"==": x == y, "!=": x != y, "<": x < y, ">": x > y, "<=": x <= y, ">=": x >= y}[op])

    # ---- free functions
    def free_call(self, q, name, args, env, e):
        std = q.startswith("std::") or "::" not in q
        if q in ("tlx::to_lower", "tlx::to_upper") and len(args) == 1 and int_type(e.get("ty")):
            v = self.eval(args[0], env)
            if isinstance(v, int):
                u = v & 0xFF
                if q.endswith("lower") and 65 <= u <= 90:
                    u += 32
                elif q.endswith("upper") and 97 <= u <= 122:
                    u -= 32
                return conv(u, e.get("ty"))
            raise Und("%s of %s" % (q, type(v).__name__))
        if not std:
            raise Und("call of %s (no body in this translation unit)" % q)
        if name in ("move", "forward") and len(args) == 1:
            v = self.eval(args[0], env)
            return Moved(v) if name == "move" and isinstance(v, (Str, Vec)) else v
        if name in ("tolower", "toupper") and len(args) == 1:
            v = self.eval(args[0], env)
            if isinstance(v, int):
                if name == "tolower" and 65 <= v <= 90:
                    return v + 32
                if name == "toupper" and 97 <= v <= 122:
                    return v - 32
                return v
        if name == "swap" and len(args) == 2:
            la, lb = self.lval(args[0], env), self.lval(args[1], env)
            a, b = la.get(), lb.get()
            if a is UNINIT or b is UNINIT:
                raise Und("std::swap of an uninitialised variable")
            if type(a) is not type(b):
                raise Und("std::swap of %s and %s" % (type(a).__name__, type(b).__name__))
            if isinstance(a, (Str, Vec)):
                if isinstance(a, Vec) and a.elem != b.elem:
                    raise Und("std::swap of vectors of different element types")
                a.buf, b.buf = b.buf, a.buf          # the storage changes hands: iterators and views follow it
                return None
            if isinstance(a, View):
                (a.buf, a.off, a.n), (b.buf, b.off, b.n) = (b.buf, b.off, b.n), (a.buf, a.off, a.n)
                return None
            if isinstance(a, (int, Ptr)):
                la.set(b)
                lb.set(a)
                return None
            raise Und("std::swap of %s" % type(a).__name__)
        if name == "back_inserter" and len(args) == 1:
            o = self.eval(args[0], env)
            if isinstance(o, (Str, Vec)):
                return BackIns(o)
            raise Und("std::back_inserter of %s" % type(o).__name__)
        vs = self.vals(args, env)
        vs = [unmoved(v) for v in vs]
        if name in ("min", "max") and len(vs) == 2:
            a, b = vs
            if isinstance(a, int) and isinstance(b, int):
                return min(a, b) if name == "min" else max(a, b)
            if isinstance(a, Ptr) and isinstance(b, Ptr) and a.buf is b.buf:
                return (a if a.off <= b.off else b) if name == "min" else (a if a.off >= b.off else b)
        if name == "strlen" and len(vs) == 1 and isinstance(vs[0], Ptr):
            return len(cstr_cells(vs[0]))
        if name in ("next", "prev") and vs and isinstance(vs[0], Ptr) and (len(vs) == 1 or isinstance(vs[1], int)):
            d = vs[1] if len(vs) > 1 else 1
            return Ptr(vs[0].buf, vs[0].off + (d if name == "next" else -d))
        if name == "advance" and len(vs) == 2 and isinstance(vs[0], Ptr) and isinstance(vs[1], int):
            self.lval(args[0], env).set(Ptr(vs[0].buf, vs[0].off + vs[1]))
            return None
        if name == "distance" and len(vs) == 2 and isinstance(vs[0], Ptr) and isinstance(vs[1], Ptr):
            return self.ptr_arith("-", vs[1], vs[0])
        if name in ("begin", "cbegin", "end", "cend", "size", "empty", "data") and len(vs) == 1 and isinstance(vs[0], (Str, View, Vec)):
            o = vs[0]
            return (self.str_method if isinstance(o, Str) else self.view_method if isinstance(o, View) else self.vec_method)(o, name, [], env, e)
        if name in ("equal", "lexicographical_compare", "find", "find_if", "find_if_not", "search", "any_of", "all_of", "none_of", "count", "count_if",
                    "mismatch", "memcmp", "strncmp", "strcmp", "memchr", "copy", "fill", "strcasecmp", "strncasecmp", "transform", "remove",
                    "remove_if", "copy_if", "remove_copy", "remove_copy_if", "for_each", "strchr", "fill_n", "copy_n", "reverse"):
            return self.algorithm(name, vs)
        raise Und("call of %s with (%s)" % (q, ", ".join(type(v).__name__ for v in vs)))

    def rd(self, p):
        v = load(p.buf, p.off)
        if p.buf.kind == "bytes" and isinstance(v, int):
            return v - 256 if v >= 128 else v        # elements are read as (signed) char
        return v

    def algorithm(self, name, vs):
        P = lambda x: isinstance(x, Ptr)
        if name == "equal" and len(vs) >= 3 and P(vs[0]) and P(vs[1]) and P(vs[2]):
            a, ae, b = vs[0], vs[1], vs[2]
            be, pred = None, None
            rest = vs[3:]
            if rest and P(rest[0]):
                be, rest = rest[0], rest[1:]
            if rest:
                pred, rest = rest[0], rest[1:]
            if rest or a.buf is not ae.buf or (be is not None and be.buf is not b.buf):
                raise Und("std::equal argument shape")
            if be is not None and (ae.off - a.off) != (be.off - b.off):
                return 0
            i, j = a.off, b.off
            while i < ae.off:
                self.tick()
                x, y = self.rd(Ptr(a.buf, i)), self.rd(Ptr(b.buf, j))
                ok = truthy(self.apply(pred, [x, y])) if pred is not None else self.same(x, y)
                if not ok:
                    return 0
                i, j = i + 1, j + 1
            return 1
        if name == "lexicographical_compare" and len(vs) in (4, 5) and all(P(x) for x in vs[:4]):
            a, ae, b, be = vs[:4]
            pred = vs[4] if len(vs) == 5 else None
            if a.buf is not ae.buf or b.buf is not be.buf:
                raise Und("iterator pairs into different objects")
            i, j = a.off, b.off
            less = (lambda x, y: truthy(self.apply(pred, [x, y]))) if pred is not None else (lambda x, y: self.lt(x, y))
            while i < ae.off and j < be.off:
                self.tick()
                x, y = self.rd(Ptr(a.buf, i)), self.rd(Ptr(b.buf, j))
                if less(x, y):
                    return 1
                if less(y, x):
                    return 0
                i, j = i + 1, j + 1
            return int(i >= ae.off and j < be.off)
        if name in ("find", "find_if", "find_if_not", "any_of", "all_of", "none_of", "count", "count_if") and len(vs) == 3 and P(vs[0]) and P(vs[1]):
            a, ae, x = vs
            if a.buf is not ae.buf:
                raise Und("iterator pair into different objects")
            test = (lambda y: self.same(y, x)) if name in ("find", "count") else (lambda y: truthy(self.apply(x, [y])))
            if name in ("find", "count") and not isinstance(x, int):
                raise Und("std::%s for a %s" % (name, type(x).__name__))
            hits = 0
            i = a.off
            while i < ae.off:
                self.tick()
                t = test(self.rd(Ptr(a.buf, i)))
                if name in ("find", "find_if", "any_of", "none_of") and t:
                    break
                if name in ("find_if_not", "all_of") and not t:
                    break
                hits += int(t)
                i += 1
            if name in ("find", "find_if", "find_if_not"):
                return Ptr(a.buf, i)
            if name in ("count", "count_if"):
                return hits
            if name == "any_of":
                return int(i < ae.off)
            return int(i >= ae.off)
        if name == "mismatch" and len(vs) in (3, 4, 5) and P(vs[0]) and P(vs[1]) and P(vs[2]):
            a, ae, b = vs[:3]
            rest = vs[3:]
            be = rest.pop(0) if rest and P(rest[0]) else None
            pred = rest.pop(0) if rest else None
            if rest or a.buf is not ae.buf or (be is not None and be.buf is not b.buf):
                raise Und("std::mismatch argument shape")
            i, j = a.off, b.off
            while i < ae.off and (be is None or j < be.off):
                self.tick()
                x, y = self.rd(Ptr(a.buf, i)), self.rd(Ptr(b.buf, j))
                if not (truthy(self.apply(pred, [x, y])) if pred is not None else self.same(x, y)):
                    break
                i, j = i + 1, j + 1
            return Pair(Ptr(a.buf, i), Ptr(b.buf, j))
        if name in ("strcasecmp", "strncasecmp") and len(vs) in (2, 3) and P(vs[0]) and P(vs[1]):
            lim = vs[2] if len(vs) == 3 else None
            i = 0
            while lim is None or i < lim:
                self.tick()
                x, y = load(vs[0].buf, vs[0].off + i), load(vs[1].buf, vs[1].off + i)
                if not isinstance(x, int) or not isinstance(y, int):
                    raise Und("symbolic bytes compared")
                x, y = (x + 32 if 65 <= x <= 90 else x), (y + 32 if 65 <= y <= 90 else y)
                if x != y:
                    return x - y
                if x == 0:
                    break
                i += 1
            return 0
        if name == "search" and len(vs) == 4 and all(P(x) for x in vs):
            a, ae, b, be = vs
            hay, nd = all_int(range_cells(a, ae)), all_int(range_cells(b, be))
            r = bytes(hay).find(bytes(nd))
            return Ptr(a.buf, ae.off if r < 0 else a.off + r)
        if name in ("memcmp", "strncmp") and len(vs) == 3 and P(vs[0]) and P(vs[1]) and isinstance(vs[2], int):
            for i in range(vs[2]):
                x, y = load(vs[0].buf, vs[0].off + i), load(vs[1].buf, vs[1].off + i)
                if not isinstance(x, int) or not isinstance(y, int):
                    raise Und("symbolic bytes compared")
                if x != y:
                    return -1 if x < y else 1
                if name == "strncmp" and x == 0:
                    break
            return 0
        if name == "strcmp" and len(vs) == 2 and P(vs[0]) and P(vs[1]):
            x, y = bytes(cstr_cells(vs[0])), bytes(cstr_cells(vs[1]))
            return (x > y) - (x < y)
        if name == "memchr" and len(vs) == 3 and P(vs[0]) and isinstance(vs[1], int) and isinstance(vs[2], int):
            for i in range(vs[2]):
                if load(vs[0].buf, vs[0].off + i) == (vs[1] & 0xFF):
                    return Ptr(vs[0].buf, vs[0].off + i)
            return Ptr(None, 0)
        if name in ("copy", "copy_if", "remove_copy", "remove_copy_if", "transform") and len(vs) >= 3 and P(vs[0]) and P(vs[1]):
            # one output per (selected) input element, written through an iterator or appended through a back_inserter
            src = list(range_cells(vs[0], vs[1]))
            rest = list(vs[2:])
            src2 = None
            if name == "transform" and len(rest) == 3:
                if not P(rest[0]):
                    raise Und("std::transform argument shape")
                src2 = rest.pop(0)
            out = rest.pop(0)
            fn = rest.pop(0) if rest else None
            if rest or (fn is None) != (name == "copy") or not (P(out) or isinstance(out, BackIns)):
                raise Und("std::%s argument shape" % name)
            if vs[0].buf.kind == "objs":
                raise Und("std::%s over a range of objects" % name)
            signed = vs[0].buf.kind == "bytes"
            if P(out) and out.buf is vs[0].buf and vs[0].off < out.off < vs[1].off:
                raise Und("std::%s into the middle of its own input range" % name)
            k = 0
            for i in range(len(src)):
                self.tick()
                c = load(vs[0].buf, vs[0].off + i)          # read when the element is reached (the output may be the input range itself)
                x = c - 256 if signed and isinstance(c, int) and c >= 128 else c
                if name == "copy":
                    y = c
                elif name == "transform":
                    y = self.apply(fn, [x] if src2 is None else [x, self.rd(Ptr(src2.buf, src2.off + i))])
                    if not isinstance(y, int):
                        raise Und("std::transform yields a %s" % type(y).__name__)
                else:
                    hit = self.same(x, fn) if name == "remove_copy" else truthy(self.apply(fn, [x]))
                    if hit != (name == "copy_if"):
                        continue
                    y = c
                if P(out):
                    store(out.buf, out.off + k, y)
                elif isinstance(out.obj, Str):
                    self.append(out.obj, [y])
                elif out.obj.elem == "int":
                    out.obj.buf.cells.append(y)
                else:
                    raise Und("back_inserter into a vector of %s" % out.obj.elem)
                k += 1
            return Ptr(out.buf, out.off + k) if P(out) else out
        if name in ("remove", "remove_if") and len(vs) == 3 and P(vs[0]) and P(vs[1]):
            src = list(range_cells(vs[0], vs[1]))
            if vs[0].buf.kind != "bytes":
                raise Und("std::%s over a range that is not characters" % name)
            k = 0
            for c in src:
                self.tick()
                x = c - 256 if isinstance(c, int) and c >= 128 else c
                if self.same(x, vs[2]) if name == "remove" else truthy(self.apply(vs[2], [x])):
                    continue
                store(vs[0].buf, vs[0].off + k, c)       # the tail [result, last) keeps its (unspecified, here: old) values
                k += 1
            return Ptr(vs[0].buf, vs[0].off + k)
        if name == "for_each" and len(vs) == 3 and P(vs[0]) and P(vs[1]) and isinstance(vs[2], Lam):
            if vs[0].buf is not vs[1].buf or vs[0].buf is None or vs[0].buf.kind == "objs":
                raise Und("std::for_each argument shape")
            pty = (vs[2].fn.params[0].get("ty") or "").strip() if len(vs[2].fn.params) == 1 else None
            if pty is None:
                raise Und("std::for_each with a function of %d parameters" % len(vs[2].fn.params))
            for i in range(vs[0].off, vs[1].off):
                self.tick()
                lv = CellLV(vs[0].buf, i, pty)
                self.invoke(vs[2].fn, [Alias(lv) if pty.endswith("&") and not pty.startswith("const ") else lv.get()], vs[2].caps)
            return vs[2]
        if name == "strchr" and len(vs) == 2 and P(vs[0]) and isinstance(vs[1], int):
            i = vs[0].off
            while True:
                self.tick()
                c = load(vs[0].buf, i)
                if not isinstance(c, int):
                    raise Und("symbolic byte in a C string")
                if c == (vs[1] & 0xFF):
                    return Ptr(vs[0].buf, i)          # the terminator is part of the string: strchr(s, 0) finds it
                if c == 0:
                    return Ptr(None, 0)
                i += 1
        if name in ("fill_n", "copy_n") and len(vs) == 3 and P(vs[0]) and isinstance(vs[1], int):
            if name == "fill_n":
                for i in range(vs[1]):
                    store(vs[0].buf, vs[0].off + i, vs[2])
                return Ptr(vs[0].buf, vs[0].off + max(vs[1], 0))
            if not P(vs[2]):
                raise Und("std::copy_n argument shape")
            for i, c in enumerate(ptr_n_cells(vs[0], vs[1])):
                store(vs[2].buf, vs[2].off + i, c)
            return Ptr(vs[2].buf, vs[2].off + vs[1])
        if name == "reverse" and len(vs) == 2 and P(vs[0]) and P(vs[1]):
            cells = range_cells(vs[0], vs[1])
            for i, c in enumerate(reversed(cells)):
                store(vs[0].buf, vs[0].off + i, c)
            return None
        if name == "fill" and len(vs) == 3 and P(vs[0]) and P(vs[1]):
            for i in range(vs[0].off, vs[1].off):
                store(vs[0].buf, i, vs[2])
            return None
        raise Und("std::%s with (%s)" % (name, ", ".join(type(v).__name__ for v in vs)))

    @staticmethod
    def same(x, y):
        if isinstance(x, int) and isinstance(y, int):
            return (x & 0xFF) == (y & 0xFF) if -128 <= x < 256 and -128 <= y < 256 else x == y
        raise Und("comparison of %s and %s" % (type(x).__name__, type(y).__name__))

    @staticmethod
    def lt(x, y):
        if isinstance(x, int) and isinstance(y, int):
            return x < y
        raise Und("ordering of %s and %s" % (type(x).__name__, type(y).__name__))


# ------------------------------------------------------------------ running one function on one input
def view_of(bs):
    bs = list(bs)
    return View(Buf(bs, "data of a string_view"), 0, len(bs))


def cstr_of(bs):
    bs = list(bs)
    return Ptr(Buf(bs + [0], "C string incl. its terminator"), 0)


def data_of(cells):
    cells = list(cells)
    return Ptr(Buf(cells, "input buffer"), 0)


def concrete(v):
    """python value of a machine value (bytes for strings, list for vectors)"""
    v = unmoved(v)
    if isinstance(v, Str):
        return bytes(all_int(v.buf.cells))
    if isinstance(v, View):
        return bytes(all_int(view_cells(v)))
    if isinstance(v, Vec):
        return [concrete(x) for x in v.buf.cells]
    if isinstance(v, Ref):
        return concrete(v.obj)
    if isinstance(v, (int, type(None))):
        return v
    raise Und("result of kind %s" % type(v).__name__)


def attempt(tu, fn, args, budget=500000):
    """-> ('ok', machine value) | ('throw', None) | ('fault', text) | ('hang', text); Undecidable propagates"""
    m = Mach(tu, budget)
    try:
        return "ok", m.invoke(fn, args), m
    except Thrown:
        return "throw", None, m
    except MemFault as f:
        return "fault", str(f), m
    except Hang as h:
        return "hang", str(h), m
    except RecursionError:
        raise Und("%s: expression nesting too deep for the evaluator" % fn.loc)
    except (KeyError, IndexError, TypeError, AttributeError, ValueError) as x:
        raise Und("%s: tree shape not handled by the evaluator (%s: %s)" % (fn.loc, type(x).__name__, x))


def outcome(tu, fn, args, budget=500000):
    """like attempt, with the result made concrete: ('ok', python value) | ('throw',) | ('fault', text) | ('hang', text)"""
    st, v, _ = attempt(tu, fn, args, budget)
    if st == "ok":
        return ("ok", concrete(v))
    if st == "throw":
        return ("throw",)
    return (st, v)


def show(o):
    if o[0] == "ok":
        return "returns %r" % (o[1],)
    if o[0] == "throw":
        return "throws"
    if o[0] == "fault":
        return "faults (%s)" % o[1]
    return "does not finish (%s)" % o[1]


def pkind(ty):
    t = _bare(ty)
    if t.endswith("*"):
        inner = kind_of_type(t[:-1])
        return "ref:" + inner if inner else "ptr"
    k = kind_of_type(t)
    if k:
        return k
    if int_type(t):
        return "char" if _bare(t) in ("char", "signed char", "unsigned char") else "int"
    return "?"


def sig_of(fn):
    return tuple(pkind(p.get("ty")) for p in fn.params)


def overloads(tu, qname):
    return [f for f in tu.functions if f.qname == qname and f.body is not None]


def the_overload(tu, qname, sig):
    fs = [f for f in overloads(tu, qname) if sig_of(f) == tuple(sig)]
    if len(fs) != 1:
        raise ir.AnalysisBroken("%s: expected exactly one overload %s(%s), found %d" % (tu.src, qname, ", ".join(sig), len(fs)))
    return fs[0]


def located(fn, thunk):
    """runs thunk; a construct the machine does not model is reported with the function it occurred in"""
    try:
        return thunk()
    except dtable.Undecidable as u:
        if str(u).startswith("tlx/") or str(u).startswith(fn.loc):
            raise
        raise dtable.Undecidable("%s: %s not evaluated: %s" % (fn.loc, fn.qname, u))


# ------------------------------------------------------------------ base64
RFC_ALPHABET = "ABCDEFGHIJKLMNOPQRSTUVWXYZabcdefghijklmnopqrstuvwxyz0123456789+/"
B64_SKIPPED = (9, 10, 13, 32, 61)          # whitespace and the padding character


def check_base64(ck, tu):
    enc = the_overload(tu, "tlx::base64_encode", ("ptr", "int", "int"))
    dec = the_overload(tu, "tlx::base64_decode", ("ptr", "int", "int"))
    # ---- bit provenance (symbolic): every output bit is traced to its input bit
    okb = True
    e_tables = []
    for avail in (1, 2, 3):
        cells = [BV([("u%d" % k, j) if j < 8 else 0 for j in range(W)]) for k in range(avail)]
        st, r, _ = located(enc, lambda: attempt(tu, enc, [data_of(cells), avail, 0]))
        tag = "encode:%dbytes" % avail
        if st != "ok" or not isinstance(r, Str):
            ck.violation("B64-BITS", enc.qname, tag, "encoding %d input byte(s) %s" % (avail, show((st, r))), enc.loc)
            okb = False
            continue
        out = r.buf.cells
        if any(not isinstance(c, (Enc, int)) for c in out):
            raise dtable.Undecidable("%s: an output character of the encoder is neither a table entry nor a constant" % enc.loc)
        sext = [c for c in out if isinstance(c, Enc)]
        for c in sext:
            if len(c.buf.cells) != 64:
                raise dtable.Undecidable("%s: output characters are taken from a table with %d entries" % (enc.loc, len(c.buf.cells)))
            if tuple(c.buf.cells) not in e_tables:
                e_tables.append(tuple(c.buf.cells))
        bits = []
        for k in range(avail):
            bits += [("u%d" % k, j) for j in range(7, -1, -1)]          # msb first
        while len(bits) % 6:
            bits.append(0)
        want = [bits[i:i + 6] for i in range(0, len(bits), 6)]
        got = [[c.idx.bits[j] for j in range(5, -1, -1)] for c in sext]
        high = any(any(b != 0 for b in c.idx.bits[6:]) for c in sext)
        npad = (3 - avail) % 3
        shape_ok = len(out) == len(want) + npad and all(isinstance(c, Enc) for c in out[:len(want)]) and all(c == ord("=") for c in out[len(want):])
        if got != want or high or not shape_ok:
            pads = len([c for c in out if c == ord("=")])
            ck.violation("B64-BITS", enc.qname, tag,
                         "encoding %d input byte(s) does not produce the RFC sextets (bit provenance differs) or the wrong number of '=' (%d)" % (avail, pads), enc.loc)
            okb = False
    d_tables = []
    for avail in (2, 3, 4):
        for strict in (0, 1):
            st, r, m = located(dec, lambda: attempt(tu, dec, [data_of([Letter(k) for k in range(avail)]), avail, strict]))
            tag = "decode:%dletters" % avail
            if st != "ok" or not isinstance(r, Str):
                ck.violation("B64-BITS", dec.qname, tag, "decoding %d letters %s" % (avail, show((st, r))), dec.loc)
                okb = False
                break
            for b in getattr(m, "letter_tables", []):
                if tuple(b.cells) not in d_tables:
                    d_tables.append(tuple(b.cells))
            out = r.buf.cells
            if any(not isinstance(c, (BV, int)) for c in out):
                raise dtable.Undecidable("%s: an output byte of the decoder is not a bit combination of the letters' values" % dec.loc)
            bits = []
            for k in range(avail):
                bits += [("u%d" % k, j) for j in range(5, -1, -1)]
            nbytes = (avail * 6) // 8
            want = [bits[i * 8:(i + 1) * 8] for i in range(nbytes)]
            got = [[BV.of(c).bits[j] for j in range(7, -1, -1)] for c in out]
            if got != want:
                ck.violation("B64-BITS", dec.qname, tag, "decoding %d letters does not reassemble the RFC bytes (bit provenance differs)" % avail, dec.loc)
                okb = False
                break
    if okb:
        ck.ok("B64-BITS", "base64", "encoder: 1/2/3 bytes -> sextets + padding; decoder: 2/3/4 letters -> bytes; every bit traced to its source (decode o encode = identity)")
    # ---- tables
    if len(e_tables) != 1 or len(d_tables) != 1:
        if not okb:
            return
        raise dtable.Undecidable("%s: encoder / decoder table not identified by the symbolic run (%d / %d candidates)" % (enc.loc, len(e_tables), len(d_tables)))
    e64, d64 = e_tables[0], d_tables[0]
    okt = True
    if "".join(chr(c) for c in e64) != RFC_ALPHABET:
        ck.violation("B64-TABLES", enc.qname, "alphabet", "the encoder alphabet is not the RFC 4648 alphabet", enc.loc)
        okt = False
    alpha = [ord(c) for c in RFC_ALPHABET]
    for i, c in enumerate(alpha):
        if d64[c] != i:
            ck.violation("B64-TABLES", dec.qname, "inverse:%s" % chr(c), "decoding64[%r] = %s, must be %d (inverse of the encoder alphabet)" % (chr(c), d64[c], i), dec.loc)
            okt = False
            break
    if not okb:
        return          # the skip positions are decided by decoding whole groups, which needs a correct bit flow (already reported)
    # every other byte: what the decoder does with it, decided by running the decoder with that byte put in front of
    # letter p of the group "QUJD" (= "ABC"); a byte takes part only through its table value (the symbolic run above
    # would have stopped at any other use), so one representative per table value is enough
    group = [ord(c) for c in "QUJD"]
    special = {}
    for c in range(256):
        if c not in alpha:
            special.setdefault(d64[c], c)
    behaviour = {}
    for v, c in special.items():
        for p in range(4):
            res = []
            for strict in (1, 0):
                text = group[:p] + [c] + group[p:]
                res.append(located(dec, lambda: outcome(tu, dec, [data_of(text), len(text), strict])))
            cls = "skip" if res[0] == ("ok", b"ABC") and res[1] == ("ok", b"ABC") else \
                "reject" if res[0] == ("throw",) and res[1] == ("ok", b"ABC") else "other"
            behaviour[(v, p)] = (cls, res)
    plain = located(dec, lambda: outcome(tu, dec, [data_of(group), 4, 1]))
    if plain != ("ok", b"ABC"):
        ck.violation("B64-BITS", dec.qname, "decode:QUJD", "decoding \"QUJD\" %s, expected b'ABC'" % show(plain), dec.loc)
        return

    def majority(v):
        cl = [behaviour[(v, p)][0] for p in range(4)]
        return max(("skip", "reject", "other"), key=lambda x: (cl.count(x), x != "other"))
    for c in B64_SKIPPED:
        v = d64[c]
        if v < 64 or majority(v) != "skip":
            ck.violation("B64-TABLES", dec.qname, "skip:%d" % c, "character %r must be skipped (padding / whitespace) but maps to %s, for which the decoder %s"
                         % (chr(c), v, "takes it as a letter" if v < 64 else show(behaviour[(v, 0)][1][0]) + " in strict mode"), dec.loc)
            okt = False
    extra = [c for c in range(256) if c not in alpha and c not in B64_SKIPPED and (d64[c] < 64 or majority(d64[c]) != "reject")]
    if extra:
        ck.violation("B64-TABLES", dec.qname, "extra:%d" % extra[0], "character %r is accepted although it is not in the alphabet" % chr(extra[0]), dec.loc)
        okt = False
    if okt:
        ck.ok("B64-TABLES", "base64", "alphabet = RFC 4648; decoder table inverts it on all 64 letters; '=' and whitespace skipped; %d other bytes rejected"
              % (256 - 64 - len(B64_SKIPPED)))
    # ---- the four letter-reading positions treat every special table value alike
    oks = True
    for v in sorted(special):
        if v < 64:
            continue
        mj = majority(v)
        for p in range(4):
            cls, res = behaviour[(v, p)]
            if cls != mj or cls == "other":
                c = special[v]
                text = "".join(chr(x) for x in group[:p]) + repr(chr(c))[1:-1] + "".join(chr(x) for x in group[p:])
                what = res[0] if (res[0] not in (("ok", b"ABC"), ("throw",))) else res[1]
                ck.violation("B64-SKIP", dec.qname, "loop%d" % p,
                             "letter-reading loop %d does not skip table value %d: decoding \"%s\" %s (whitespace / padding is taken as a data letter and shifts "
                             "everything after it, or a valid letter is skipped)" % (p + 1, v, text, show(what)), dec.loc)
                oks = False
                break
        if not oks:
            break
    if oks:
        ck.ok("B64-SKIP", dec.qname, "all four read positions skip exactly the special table values (whitespace, '=', invalid) and stop on every letter value 0..63")
    # ---- string_view front ends: same result as the (data, size, option) overload on the view's bytes
    for q, base, samples in (("tlx::base64_encode", enc, [(b"", 0), (b"f", 0), (b"fo", 0), (b"foobar", 0), (b"foobar", 4), (b"\x00\xff\x10", 0)]),
                             ("tlx::base64_decode", dec, [(b"Zm9vYmFy", 1), (b"Zm9v\nYmE=", 1), (b"Zm9v*YmFy", 0), (b"Zm9v*YmFy", 1), (b"", 0)])):
        for fn in [the_overload(tu, q, ("view", "int"))]:
            bad = None
            for bs, opt in samples:
                a = located(fn, lambda: outcome(tu, fn, [view_of(bs), opt]))
                b = located(base, lambda: outcome(tu, base, [data_of(bs), len(bs), opt]))
                if a != b:
                    bad = (bs, opt, a, b)
                    break
            if bad:
                ck.violation("FORWARD-ROLES", fn.qname, "string_view-overload", "does not forward (str.data(), str.size(), option): for %r with option %d it %s, the "
                             "pointer overload %s" % (bad[0], bad[1], show(bad[2]), show(bad[3])), fn.loc)
            else:
                ck.ok("FORWARD-ROLES", fn.qname + "(string_view)", "forwards (data, size, option)", nontrivial=False)


# ------------------------------------------------------------------ hexdump
HEX_UC, HEX_LC = "0123456789ABCDEF", "0123456789abcdef"


def check_hex(ck, tu):
    okall = True
    n = 0
    allbytes = list(range(256))
    for q, digits in (("tlx::hexdump", HEX_UC), ("tlx::hexdump_lc", HEX_LC)):
        fn = the_overload(tu, q, ("ptr", "int"))
        n += 1
        o = located(fn, lambda: outcome(tu, fn, [data_of(allbytes), 256]))
        want = "".join(digits[b >> 4] + digits[b & 15] for b in allbytes).encode()
        if o != ("ok", want):
            okall = False
            if o[0] == "ok" and len(o[1]) == len(want):
                i = [j for j in range(256) if o[1][2 * j:2 * j + 2] != want[2 * j:2 * j + 2]][0]
                ck.violation("HEX-TABLES", fn.qname, "digits", "byte %#04x is written as %r, expected %r (digit table / high nibble first)"
                             % (i, o[1][2 * i:2 * i + 2].decode("latin1"), want[2 * i:2 * i + 2].decode()), fn.loc)
            else:
                ck.violation("HEX-TABLES", fn.qname, "digits", "dumping the 256 byte values %s" % show(o)[:120], fn.loc)
    for fn in [the_overload(tu, "tlx::hexdump_sourcecode", ("view", "view"))]:
        n += 1
        o = located(fn, lambda: outcome(tu, fn, [view_of(allbytes), view_of(b"v")]))
        toks = []
        if o[0] == "ok":
            t = o[1]
            i = t.find(b"0x")
            while i >= 0:
                toks.append(t[i + 2:i + 4].decode("latin1"))
                i = t.find(b"0x", i + 2)
        want = [HEX_UC[b >> 4] + HEX_UC[b & 15] for b in allbytes]
        if o[0] != "ok" or toks != want:
            okall = False
            bad = [j for j in range(min(len(toks), 256)) if toks[j] != want[j]]
            ck.violation("HEX-TABLES", fn.qname, "digits", ("byte %#04x is written as 0x%s, expected 0x%s" % (bad[0], toks[bad[0]], want[bad[0]])) if bad else
                         "dumping the 256 byte values %s" % show(o)[:120], fn.loc)
    fn = the_overload(tu, "tlx::parse_hexdump", ("view",))
    n += 1
    digs = [(ord(ch), v) for v, ch in enumerate(HEX_UC)] + [(ord(ch), v) for v, ch in enumerate(HEX_LC) if ch not in HEX_UC]
    text, want = [], []
    for h, hv in digs:
        for l, lv in digs:
            text += [h, l]
            want.append(hv << 4 | lv)
    o = located(fn, lambda: outcome(tu, fn, [view_of(text)], budget=2000000))
    if o != ("ok", bytes(want)):
        okall = False
        if o[0] == "ok" and len(o[1]) == len(want):
            i = [j for j in range(len(want)) if o[1][j] != want[j]][0]
            ck.violation("HEX-TABLES", fn.qname, "switch:%s" % chr(text[2 * i]) + chr(text[2 * i + 1]), "the digit pair %r parses to %#04x, must be %#04x"
                         % (chr(text[2 * i]) + chr(text[2 * i + 1]), o[1][i], want[i]), fn.loc)
        else:
            # find the first pair that goes wrong on its own
            bad = None
            for i in range(len(want)):
                oi = located(fn, lambda: outcome(tu, fn, [view_of(text[2 * i:2 * i + 2])]))
                if oi != ("ok", bytes(want[i:i + 1])):
                    bad = (i, oi)
                    break
            ck.violation("HEX-TABLES", fn.qname, "switch", ("the digit pair %r %s, must give %#04x" % (chr(text[2 * bad[0]]) + chr(text[2 * bad[0] + 1]), show(bad[1]), want[bad[0]]))
                         if bad else "parsing all digit pairs %s" % show(o)[:120], fn.loc)
    else:
        hexset = {d for d, _ in digs}
        for c in range(256):
            if c in hexset:
                continue
            for pos, pair in ((0, [c, ord("0")]), (1, [ord("0"), c])):
                oi = located(fn, lambda: outcome(tu, fn, [view_of(pair)]))
                if oi != ("throw",):
                    ck.violation("HEX-TABLES", fn.qname, "switch%d:reject" % pos, "non-hex characters are not rejected: %r as the %s digit %s"
                                 % (chr(c), "high" if pos == 0 else "low", show(oi)), fn.loc)
                    okall = False
                    break
            if not okall:
                break
    if okall:
        ck.ok("HEX-TABLES", "hexdump / hexdump_lc / parse_hexdump", "all 256 byte values dump to 0-9A-F / 0-9a-f, high nibble first; the parser inverts all 22x22 digit "
              "pairs and rejects each of the 234 other bytes in both positions (%d functions evaluated)" % n)


# ------------------------------------------------------------------ split / split_view: scan windows and forwarding roles
def ref_split(sep, s, limit):
    """fields of s cut at non-overlapping occurrences of sep found left to right; at most `limit` fields, the last takes the rest"""
    out = []
    pos = 0
    if limit == 0:
        return out
    while True:
        j = s.find(sep, pos) if len(out) + 1 < limit else -1
        if j < 0:
            out.append(s[pos:])
            return out
        out.append(s[pos:j])
        pos = j + len(sep)


def words(alphabet, maxlen):
    out = [b""]
    for n in range(1, maxlen + 1):
        out += [bytes(t) for t in itertools.product(alphabet, repeat=n)]
    return out


def check_split_family(ck, tu, family):
    shapes = (("char", "view", "int"), ("view", "view", "int"), ("char", "view", "int", "int"), ("view", "view", "int", "int"))
    fns = [the_overload(tu, "tlx::" + family, pre + sh) for pre in ((), ("ref:vec",)) for sh in shapes]
    elem = None
    verdict = {}          # fn.did -> None (agrees with the reference) | (args text, outcome, expected)
    calls = {}
    strs = words(b"ab", 4)
    for fn in fns:
        sg = sig_of(fn)
        into = sg[0] == "ref:vec"
        rest = sg[1:] if into else sg
        calls[fn.did] = {y["callee"].get("did") for y in fn.nodes() if "callee" in y and y["callee"].get("qname") == fn.qname}
        seps = [b"a"] if rest[0] == "char" else [b"a", b"b", b"aa", b"ab", b"ba"]
        with_min = len(rest) == 4
        limits = [(0, NPOS), (0, 1), (0, 2), (0, 3)] if not with_min else [(0, NPOS), (3, 2), (1, 3), (2, 1), (4, NPOS)]
        elem = vec_elem(fn.params[0].get("ty").rstrip(" *")) if into else vec_elem(fn.d.get("ret"))
        bad = None
        for sep in seps:
            for s in strs:
                for mf, lim in limits:
                    args = []
                    vec = None
                    if into:
                        vec = Vec([Str(b"junk")] if elem == "str" else [view_of(b"junk")], elem)
                        args.append(Ref(vec))
                    args.append(sep[0] if rest[0] == "char" else view_of(sep))
                    args.append(view_of(s))
                    if with_min:
                        args.append(mf)
                    args.append(lim)
                    o = located(fn, lambda: outcome(tu, fn, args))
                    want = ref_split(sep, s, lim)
                    want += [b""] * max(0, mf - len(want))
                    if o != ("ok", want) or (into and concrete(vec) != want):
                        bad = ("sep=%r str=%r%s limit=%s" % (sep.decode(), s.decode(), " min_fields=%d" % mf if with_min else "", "npos" if lim == NPOS else lim),
                               o if o != ("ok", want) else ("ok", concrete(vec)), want)
                        break
                if bad:
                    break
            if bad:
                break
        verdict[fn.did] = bad
    for fn in fns:
        sg = sig_of(fn)
        tag = "%s(%s)" % (family, ",".join(p["name"] for p in fn.params))
        forwards = bool(calls[fn.did] - {fn.did})
        rule = "FORWARD-ROLES" if forwards else "SCAN-WINDOW"
        bad = verdict[fn.did]
        if bad is None:
            if forwards:
                ck.ok("FORWARD-ROLES", tag + " @" + fn.loc, "agrees with the reference split for every separator / string / min_fields / limit tried: parameters reach the roles of the same name", nontrivial=False)
            else:
                ck.ok("SCAN-WINDOW", tag, "all strings over {a,b} up to length 4 x separators up to length 2 x limits: fields equal the left-to-right non-overlapping "
                      "cut; no read outside the string")
            continue
        if forwards and any(verdict.get(d) is not None for d in calls[fn.did] if d != fn.did):
            continue               # the overload it forwards to is itself reported
        args_text, o, want = bad
        if o[0] == "fault":
            msg = "%s: %s - the comparison window / field range leaves the string" % (args_text, o[1])
        elif o[0] == "hang":
            msg = "%s: the scan does not end (%s)" % (args_text, o[1])
        else:
            msg = "%s: %s, expected %r" % (args_text, show(o), want)
        if forwards:
            msg = "%s does not hand its parameters to the overload it forwards to in their roles (separator, string, min_fields, limit): %s" % (tag, msg)
        ck.violation(rule, fn.qname, tag + (":roles" if forwards else ":scan"), msg, fn.loc)


# ------------------------------------------------------------------ quoting agreement
def check_quote(ck, tu_j, tu_s):
    wr = the_overload(tu_j, "tlx::join_quoted", ("vec", "char", "char", "char"))
    rd = the_overload(tu_s, "tlx::split_quoted", ("view", "char", "char", "char"))

    def roundtrip(fields, sep, quote, esc):
        vec = Vec([Str(f) for f in fields], "str")
        o = located(wr, lambda: outcome(tu_j, wr, [vec, sep, quote, esc]))
        if o[0] != "ok":
            return o, None
        back = located(rd, lambda: outcome(tu_s, rd, [view_of(o[1]), sep, quote, esc]))
        return o, back

    def sweep(alphabet, sep, quote, esc):
        singles = words(alphabet, 2)
        lists = [[f] for f in singles] + [[f, b"a"] for f in singles] + [[b"a", f] for f in singles] + [[f, b""] for f in singles] + [[f, f] for f in singles[:12]]
        for fields in lists:
            if not fields:
                continue
            w, back = roundtrip(fields, sep, quote, esc)
            if w[0] != "ok" or back != ("ok", fields):
                return fields, w, back
        return None
    for name, alphabet, detail in (
            ("quoting", bytes([32, 34, 97]), "fields over {separator, quote, 'a'} incl. empty ones"),
            ("escapes", bytes([92, 34, 10, 13, 9, 110, 32]), "fields over {escape, quote, \\n, \\r, \\t, 'n', separator}")):
        bad = None
        for sep, quote, esc in ((32, 34, 92),):
            bad = sweep(alphabet, sep, quote, esc)
            if bad:
                break
        if bad:
            fields, w, back = bad
            if w[0] != "ok":
                ck.violation("QUOTE-AGREE", wr.qname, name + ":write", "join_quoted(%r) %s" % (fields, show(w)), wr.loc)
            else:
                ck.violation("QUOTE-AGREE", wr.qname if name == "quoting" else rd.qname, name + ":" + "+".join(repr(f.decode("latin1")) for f in fields),
                             "join_quoted writes the fields %r as %r, but split_quoted %s: the fields do not survive the round trip" % (fields, w[1], show(back)),
                             wr.loc if name == "quoting" else rd.loc)
        else:
            ck.ok("QUOTE-AGREE", "join_quoted vs split_quoted: " + name, "split_quoted(join_quoted(v)) == v for all lists of one or two " + detail)


# ------------------------------------------------------------------ icase family
def lower(bs):
    return bytes(c + 32 if 65 <= c <= 90 else c for c in bs)


def check_icase(ck, tus):
    strs = words(b"aAbB", 2)
    for fam in ("compare_icase", "equal_icase", "less_icase"):
        tu = tus[fam]
        for sg in (("ptr", "ptr"), ("ptr", "view"), ("view", "ptr"), ("view", "view")):
            fn = the_overload(tu, "tlx::" + fam, sg)
            tag = "%s(%s)" % (fam, ",".join("view" if s == "view" else "cstr" for s in sg))
            rule = "CMP3-ORIENT" if fam == "compare_icase" else "ICASE-OVERLOADS"
            bad = None
            for a in strs:
                for b in strs:
                    la, lb = lower(a), lower(b)
                    o = located(fn, lambda: outcome(tu, fn, [view_of(x) if s == "view" else cstr_of(x) for x, s in ((a, sg[0]), (b, sg[1]))]))
                    if fam == "compare_icase":
                        want = (la > lb) - (la < lb)
                        good = o[0] == "ok" and isinstance(o[1], int) and ((o[1] > 0) - (o[1] < 0)) == want
                    else:
                        want = int(la == lb) if fam == "equal_icase" else int(la < lb)
                        good = o == ("ok", want)
                    if not good:
                        bad = (a, b, o, want)
                        break
                if bad:
                    break
            if bad:
                a, b, o, want = bad
                la, lb = lower(a), lower(b)
                desc = "both exhausted" if la == lb else "a is a proper prefix of b" if lb.startswith(la) else "b is a proper prefix of a" if la.startswith(lb) \
                    else "differing characters"
                ck.violation(rule, fn.qname, tag + ":" + desc.replace(" ", "-"),
                             "%s: when %s (a=%r, b=%r) it %s, must be %s" % (tag, desc, a.decode(), b.decode(), show(o), want), fn.loc)
            else:
                ck.ok(rule, tag, "all %d pairs of strings over {a,A,b,B} up to length 2: the result has the sign/truth of a < b, a == b on the lower-cased strings"
                      % (len(strs) ** 2))


# ------------------------------------------------------------------ replace_all
def check_replace(ck, tu):
    """replace_all: after an occurrence was replaced the scan resumes exactly behind what was written there; resuming further
    right skips bytes that were never examined, resuming further left re-matches inside the replacement.  Decided by evaluating
    every overload on all short strings and comparing with the left-to-right non-overlapping replacement."""
    n = 0
    strs = words(b"ab", 4)
    for sg in (("ref:str", "view", "view"), ("ref:str", "char", "char"), ("view", "view", "view"), ("view", "char", "char")):
        fn = the_overload(tu, "tlx::replace_all", sg)
        n += 1
        inplace = sg[0] == "ref:str"
        chars = sg[1] == "char"
        pairs = [(b"a", b"b"), (b"a", b"a"), (b"b", b"a")] if chars else \
            [(nd, ins) for nd in (b"a", b"aa", b"ab", b"ba") for ins in (b"", b"a", b"b", b"ab", b"aa", b"bab")]
        sigs = "replace_all(%s)" % ",".join(p["ty"].replace("std::", "").replace("tlx::", "")[:22] for p in fn.params)
        bad = None
        for nd, ins in pairs:
            for s in strs:
                subject = Str(s)
                args = [Ref(subject) if inplace else view_of(s), nd[0] if chars else view_of(nd), ins[0] if chars else view_of(ins)]
                o = located(fn, lambda: outcome(tu, fn, args))
                want = s.replace(nd, ins)
                if o != ("ok", want) or (inplace and concrete(subject) != want):
                    bad = (s, nd, ins, o if o != ("ok", want) else ("ok", concrete(subject)), want)
                    break
            if bad:
                break
        if bad:
            s, nd, ins, o, want = bad
            ck.violation("REPLACE-RESUME", fn.qname, sigs, "replacing %r by %r in %r %s, expected %r: after a replacement the scan does not resume exactly behind what was "
                         "written (with an empty replacement the byte right behind the occurrence is skipped, so an adjacent second occurrence survives)"
                         % (nd.decode(), ins.decode(), s.decode(), show(o), want), fn.loc)
        else:
            ck.ok("REPLACE-RESUME", sigs, "all strings over {a,b} up to length 4 x needles x replacements (incl. empty): equals the left-to-right non-overlapping replacement")
    return n


# ------------------------------------------------------------------ pure helpers against their documented definition
# Every overload of trim / trim_left / trim_right, starts_with(_icase) / ends_with(_icase) / contains, to_lower / to_upper,
# erase_all, replace_first (and replace_all on byte alphabets), pad, levenshtein(_icase) and join is evaluated on a complete
# small family of inputs and compared with a direct Python implementation of what its doc comment says.  The alphabets contain
# a NUL byte and a byte >= 0x80 wherever the function takes arbitrary bytes; drop sets / needles / glue passed as string_view
# are also given as views into the middle of a longer buffer (not NUL-terminated: a read behind the view's end yields the next
# byte of the buffer, a read behind the buffer is a fault of the run).
HI = 0xE9
DEFAULT_DROP = b" \r\n\t"


def inside(bs, before=b"", after=b""):
    """a string_view of bs that lies in the middle of a longer NUL-terminated buffer"""
    return View(Buf(list(before) + list(bs) + list(after), "buffer around a string_view", zterm=True), len(before), len(bs))


def hx(b):
    return "".join(chr(c) if 33 <= c < 127 and c != 92 else "\\x%02x" % c for c in b)


def observed(tu, fn, args, also=None, budget=200000):
    """outcome of one run, the result made concrete; `also`: the object the function works on in place (must hold the same bytes)"""
    st, v, _ = attempt(tu, fn, args, budget)
    if st != "ok":
        return ("throw",) if st == "throw" else (st, v)
    try:
        r = concrete(v)
        if also is not None:
            a = concrete(also)
            if a != r:
                return ("ok", r, "but the object worked on in place holds %r" % (a,))
        return ("ok", r)
    except MemFault as f:
        return ("fault", "the result " + str(f))


def undecided(msg):
    raise dtable.Undecidable(msg)


def shown(o):
    return show(o) + (" " + o[2] if len(o) > 2 else "")


def decide(ck, rule, tu, fn, tag, cases, detail):
    """cases: iterable of (describe: tuple for the message, args, in-place object or None, expected value)"""
    n = 0
    for desc, args, also, want in cases:
        o = located(fn, lambda: observed(tu, fn, args, also))
        if o != ("ok", want):
            if o[0] == "ok" and isinstance(o[1], bytes) and isinstance(want, bytes) and len(want) > 32:
                i = ([j for j in range(min(len(o[1]), len(want))) if o[1][j] != want[j]] + [min(len(o[1]), len(want))])[0]
                got = "returns %d byte(s), byte %d is %s" % (len(o[1]), i, "%#04x" % o[1][i] if i < len(o[1]) else "missing") + (" " + o[2] if len(o) > 2 else "")
                exp = "%d byte(s), byte %d is %s" % (len(want), i, "%#04x" % want[i] if i < len(want) else "missing")
            else:
                got, exp = shown(o), "%r" % (want,)
            ck.violation(rule, fn.qname, tag, "%s: %s, the documented result is %s" % (desc[0] % tuple(desc[1:]), got, exp), fn.loc)
            return
        n += 1
    ck.ok(rule, tag, detail % n)


def family(ck, rule, tu, qname, table, detail):
    """table: {signature: case generator}; every overload of qname in the translation unit must be one of them, each exactly once"""
    present = overloads(tu, qname)
    for f in present:
        if sig_of(f) not in table:
            ck.guarded(lambda f=f: undecided("%s: overload %s(%s) has no input family in rule %s" % (f.loc, qname, ", ".join(sig_of(f)), rule)))
    for sg, gen in table.items():
        def one(sg=sg, gen=gen):
            fn = the_overload(tu, qname, sg)
            decide(ck, rule, tu, fn, "%s(%s)" % (qname.split("::")[-1], ",".join(sg)), gen(fn), detail)
        ck.guarded(one)


# ---- trim
def ref_trim(which, s, drop):
    i, j = 0, len(s)
    if which != "trim_right":
        while i < j and s[i] in drop:
            i += 1
    if which != "trim_left":
        while j > i and s[j - 1] in drop:
            j -= 1
    return bytes(s[i:j])


def edge_strings():
    """strings whose ends carry every combination of droppable / other bytes: all strings over {space, 'x', NUL} up to length 3, over
    {space, 'x'} of length 4, and each candidate byte alone / left / right / on both sides of a letter"""
    out = words(bytes([32, 120, 0]), 3) + [bytes(t) for t in itertools.product(bytes([32, 120]), repeat=4)]
    for c in (32, 13, 10, 9, 11, 12, 0, HI, 0xA0, 97, 98, 120):
        out += [bytes([c]), bytes([c, 120]), bytes([120, c]), bytes([c, 120, c]), bytes([c, c, 120, 120, c, c])]
    seen = set()
    return [s for s in out if not (s in seen or seen.add(s))]


def drop_views():
    """(name, bytes of the set, constructor of the view)"""
    return [("{space,0xE9} as a view into the middle of \"b \\xe9a\"", bytes([32, HI]), lambda: inside(bytes([32, HI]), b"b", b"a")),
            ("{space,NUL,tab}", bytes([32, 0, 9]), lambda: inside(bytes([32, 0, 9]))),
            ("{NUL,space}", bytes([0, 32]), lambda: inside(bytes([0, 32]))),
            ("the empty view into the middle of \"x \"", b"", lambda: inside(b"", b"x", b" ")),
            ("\" \\r\\n\\t\" (not NUL-terminated)", DEFAULT_DROP, lambda: view_of(DEFAULT_DROP))]


DROP_CHARS = (32, 0, HI, 120)


def check_trim(ck, tu):
    strs = edge_strings()

    def gen(which, subject, dropkind):
        def cases(fn):
            if dropkind == "default":
                drops = [("(default drop set)", DEFAULT_DROP, None)]
            elif dropkind == "char":
                drops = [("drop=%#04x" % c, bytes([c]), (lambda c=c: c)) for c in DROP_CHARS]
            else:
                drops = [("drop=" + nm, bs, mk) for nm, bs, mk in drop_views()]
            for nm, dset, mk in drops:
                for s in strs:
                    obj = Str(s) if subject == "ref:str" else view_of(s)
                    args = [Ref(obj) if subject.startswith("ref:") else obj] + ([mk()] if mk else [])
                    yield ("str=\"%s\" %s", hx(s), nm), args, (obj if subject.startswith("ref:") else None), ref_trim(which, s, dset)
        return cases
    for which in ("trim", "trim_left", "trim_right"):
        table = {}
        for subject in ("ref:str", "ref:view", "view"):
            table[(subject,)] = gen(which, subject, "default")
            table[(subject, "view")] = gen(which, subject, "view")
            table[(subject, "char")] = gen(which, subject, "char")
        family(ck, "TRIM-SEMANTICS", tu, "tlx::" + which, table,
               "%d runs (strings with every end shape incl. NUL / 0xE9 / all whitespace bytes x drop sets incl. NUL and non-terminated views): "
               "exactly the bytes of the drop set are removed from " + {"trim": "both ends", "trim_left": "the left end", "trim_right": "the right end"}[which])


# ---- starts_with / ends_with / contains
def affix_pairs(icase, nul_ok):
    """(str, match) pairs: all pairs of words over {x,y} (str up to length 3, match up to length 3) with x,y instantiated by letters,
    letter / non-letter pairs 0x20 apart, a high byte pair 0x20 apart and (views only) NUL"""
    tmpl = words(b"xy", 3)
    inst = [(97, 98)]
    if icase:
        inst += [(97, 65), (90, 122), (64, 96), (91, 123), (0xC9, HI)]
    else:
        inst += [(97, HI)]
    if nul_ok:
        inst += [(0, 32)] if icase else [(0, 97)]
    seen = set()
    for x, y in inst:
        tr = {120: x, 121: y}
        for s in tmpl:
            for m in tmpl:
                p = (bytes(tr[c] for c in s), bytes(tr[c] for c in m))
                if p not in seen:
                    seen.add(p)
                    yield p


def check_affix(ck, tu_sw, tu_ew, tu_ct):
    def gen(kind, icase, sg):
        def cases(fn):
            for s, m in affix_pairs(icase, True):
                if (sg[0] == "ptr" and 0 in s) or (sg[1] == "ptr" and 0 in m):
                    continue
                a, b = (lower(s), lower(m)) if icase else (s, m)
                want = int(a.startswith(b) if kind == "starts" else a.endswith(b) if kind == "ends" else b in a)
                args = [cstr_of(x) if t == "ptr" else view_of(x) for x, t in ((s, sg[0]), (m, sg[1]))]
                yield ("str=\"%s\" match=\"%s\"", hx(s), hx(m)), args, None, want
        return cases
    vv = ("view", "view")
    four = (("ptr", "ptr"), ("ptr", "view"), ("view", "ptr"), vv)
    what = "%d (str, match) pairs up to length 3 (letters, case pairs, non-letters 0x20 apart, 0xC9/0xE9, NUL): true exactly when match is a "
    family(ck, "AFFIX-SEMANTICS", tu_sw, "tlx::starts_with", {vv: gen("starts", False, vv)}, what + "prefix of str; no read outside either string")
    family(ck, "AFFIX-SEMANTICS", tu_sw, "tlx::starts_with_icase", {vv: gen("starts", True, vv)}, what + "prefix of str up to ASCII case")
    family(ck, "AFFIX-SEMANTICS", tu_ew, "tlx::ends_with", {sg: gen("ends", False, sg) for sg in four}, what + "suffix of str; no read outside either string")
    family(ck, "AFFIX-SEMANTICS", tu_ew, "tlx::ends_with_icase", {sg: gen("ends", True, sg) for sg in four}, what + "suffix of str up to ASCII case")

    def gen_char(fn):
        for s in words(bytes([97, 0, HI]), 3):
            for c in (97, 0, HI, 98, 0x69):
                yield ("str=\"%s\" ch=%#04x", hx(s), c), [view_of(s), c], None, int(c in s)
    family(ck, "AFFIX-SEMANTICS", tu_ct, "tlx::contains", {vv: gen("contains", False, vv), ("view", "char"): gen_char},
           "%d inputs (incl. NUL / 0xE9 / the empty pattern): true exactly when the pattern occurs in str")


# ---- to_lower / to_upper
def upper(bs):
    return bytes(c - 32 if 97 <= c <= 122 else c for c in bs)


def check_case(ck, tu, name):
    mapper = lower if name == "to_lower" else upper
    every = bytes(range(256))
    texts = [b"", b"A", b"z", b"aZ\x00Az", every, every[::-1]]

    def gen_char(fn):
        for c in range(256):
            yield ("ch=%#04x", c), [c], None, conv(mapper(bytes([c]))[0], "char")

    def name_of(s):
        return "str=\"%s\"" % hx(s) if len(s) < 32 else "str=the 256 byte values in %s order" % ("ascending" if s[0] == 0 else "descending")

    def gen_str(fn):
        for s in texts:
            obj = Str(s)
            yield ("%s", name_of(s)), [Ref(obj)], obj, mapper(s)

    def gen_view(fn):
        for s in texts:
            yield ("%s", name_of(s)), [view_of(s)], None, mapper(s)
            yield ("%s as a view into the middle of a longer buffer", name_of(s)), [inside(s, b"Qq", b"Qq")], None, mapper(s)
    family(ck, "CASE-MAP", tu, "tlx::" + name, {("char",): gen_char, ("ref:str",): gen_str, ("view",): gen_view},
           "%d inputs covering all 256 byte values: exactly the 26 ASCII letters of the other case are mapped, every other byte (NUL, @[`{, 0x80..0xFF) is kept, "
           "length and order are kept")


# ---- erase_all
def check_erase_all(ck, tu):
    strs = words(bytes([120, 32, 0]), 4) + [bytes([c, 120, c, c, 120]) for c in (9, 10, 13, HI, 97, 98)]

    def gen(subject, dropkind):
        def cases(fn):
            drops = [("drop=%#04x" % c, bytes([c]), (lambda c=c: c)) for c in DROP_CHARS] if dropkind == "char" else \
                [("drop=" + nm, bs, mk) for nm, bs, mk in drop_views()]
            for nm, dset, mk in drops:
                for s in strs:
                    obj = Str(s) if subject == "ref:str" else view_of(s)
                    yield ("str=\"%s\" %s", hx(s), nm), [Ref(obj) if subject == "ref:str" else obj, mk()], (obj if subject == "ref:str" else None), \
                        bytes(c for c in s if c not in dset)
        return cases
    family(ck, "ERASE-ALL", tu, "tlx::erase_all", {(sb, dk): gen(sb, dk) for sb in ("ref:str", "view") for dk in ("char", "view")},
           "%d runs (all strings over {x, space, NUL} up to length 4 and strings with tab / CR / LF / 0xE9 x drop sets incl. NUL and non-terminated views): "
           "the result is the string without the bytes of the drop set, everything else in order")


# ---- replace_first / replace_all on byte alphabets
def check_replace_bytes(ck, tu):
    ab = words(b"ab", 4)
    raw = words(bytes([97, 0, HI]), 3)
    needles = [(b"a", lambda: view_of(b"a")), (b"aa", lambda: view_of(b"aa")), (b"ab", lambda: view_of(b"ab")), (b"ba", lambda: view_of(b"ba"))]
    insteads = [(b"", lambda: view_of(b"")), (b"a", lambda: view_of(b"a")), (b"b", lambda: view_of(b"b")), (b"ab", lambda: view_of(b"ab")), (b"bab", lambda: view_of(b"bab"))]
    raw_needles = [(b"\x00", lambda: inside(b"\x00")), (b"a\x00", lambda: inside(b"a\x00")), (bytes([HI]), lambda: view_of(bytes([HI]))),
                   (b"a", lambda: inside(b"a", b"x", bytes([HI, 97])))]
    raw_insteads = [(b"", lambda: inside(b"", b"x", b"y")), (b"\x00", lambda: inside(b"\x00")), (bytes([HI, 0]), lambda: inside(bytes([HI, 0]))),
                    (b"p", lambda: inside(b"p", b"", b"q"))]

    def gen(first, subject, chars):
        def cases(fn):
            if chars:
                groups = [(ab, [(b"a", b"b"), (b"a", b"a"), (b"b", b"a")]), (raw, [(b"\x00", b"a"), (b"a", b"\x00"), (bytes([HI]), b"\x00"), (b"a", bytes([HI]))])]
                groups = [(ss, [((nd, (lambda nd=nd: nd[0])), (ins, (lambda ins=ins: ins[0]))) for nd, ins in prs]) for ss, prs in groups]
            else:
                groups = [(ab if first else [], [(nd, ins) for nd in needles for ins in insteads]), (raw, [(nd, ins) for nd in raw_needles for ins in raw_insteads])]
            for ss, prs in groups:
                for (nd, mknd), (ins, mkins) in prs:
                    for s in ss:
                        obj = Str(s) if subject == "ref:str" else view_of(s)
                        yield ("str=\"%s\" needle=\"%s\" instead=\"%s\"", hx(s), hx(nd), hx(ins)), [Ref(obj) if subject == "ref:str" else obj, mknd(), mkins()], \
                            (obj if subject == "ref:str" else None), (s.replace(nd, ins, 1) if first else s.replace(nd, ins))
        return cases
    shapes = [(sb, k, k) for sb in ("ref:str", "view") for k in ("view", "char")]
    family(ck, "REPLACE-FIRST", tu, "tlx::replace_first", {sg: gen(True, sg[0], sg[1] == "char") for sg in shapes},
           "%d runs (all strings over {a,b} up to length 4 x needles x replacements incl. the empty one; strings over {a, NUL, 0xE9} x needles / replacements with NUL, "
           "0xE9 and non-terminated views): only the leftmost occurrence is replaced, nothing else changes")
    family(ck, "REPLACE-BYTES", tu, "tlx::replace_all", {sg: gen(False, sg[0], sg[1] == "char") for sg in shapes},
           "%d runs (strings over {a, NUL, 0xE9} up to length 3 x needles / replacements with NUL, 0xE9 and non-terminated views): equals the left-to-right "
           "non-overlapping replacement")


# ---- pad
def check_pad(ck, tu):
    def gen(fn):
        for s in words(bytes([97, 0, HI]), 3):
            for n in range(6):
                for p in (32, 0, HI, 120):
                    yield ("str=\"%s\" (a view followed by \"ZZ\") len=%d pad_char=%#04x", hx(s), n, p), [inside(s, b"Y", b"ZZ"), n, p], None, (s + bytes([p]) * n)[:n]
    family(ck, "PAD", tu, "tlx::pad", {("view", "int", "char"): gen},
           "%d runs (strings over {a, NUL, 0xE9} up to length 3 x len 0..5 x four pad characters): the result has exactly len characters, the string's first "
           "characters followed by pad characters on the right")


# ---- levenshtein
def ref_lev(a, b):
    row = list(range(len(b) + 1))
    for i in range(1, len(a) + 1):
        new = [i]
        for j in range(1, len(b) + 1):
            new.append(min(new[j - 1] + 1, row[j] + 1, row[j - 1] + (a[i - 1] != b[j - 1])))
        row = new
    return row[len(b)]


def check_levenshtein(ck, tu):
    def gen(icase, kind):
        def cases(fn):
            ws = words(b"ab", 3) + [b"abab", b"baba", b"aabb"]
            pairs = [(a, b) for a in ws for b in ws]
            extra = words(bytes([97, 65, 98]), 2) if icase else words(bytes([97, HI]), 2)
            pairs += [(a, b) for a in extra for b in extra]
            pairs += [(bytes(x), bytes(y)) for x, y in (([64], [96]), ([91, 97], [123, 65]), ([0xC9], [HI]), ([90, 97], [122]), ([97, 98, 97, 98], [98, 65, 66]))]
            if kind == "view":
                z = words(bytes([0, 97]), 2)
                pairs += [(a, b) for a in z for b in z]
            for a, b in pairs:
                want = ref_lev(lower(a), lower(b)) if icase else ref_lev(a, b)
                if kind == "ptr":
                    yield ("a=\"%s\" b=\"%s\"", hx(a), hx(b)), [cstr_of(a), cstr_of(b)], None, want
                else:
                    yield ("a=\"%s\" b=\"%s\" (views into the middle of longer buffers)", hx(a), hx(b)), [inside(a, b"b", b"ab"), inside(b, b"a", b"ba")], None, want
        return cases
    detail = "%d pairs (all pairs of strings over {a,b} up to length 3 and longer ones, case pairs, non-letters 0x20 apart, 0xC9/0xE9, NUL in views): equals the " \
             "edit distance with unit costs for insert / delete / replace"
    family(ck, "LEVENSHTEIN", tu, "tlx::levenshtein", {("ptr", "ptr"): gen(False, "ptr"), ("view", "view"): gen(False, "view")}, detail)
    family(ck, "LEVENSHTEIN", tu, "tlx::levenshtein_icase", {("ptr", "ptr"): gen(True, "ptr"), ("view", "view"): gen(True, "view")}, detail + " on the ASCII-lower-cased strings")


# ---- join, and split as its inverse
def check_join(ck, tu_j, tu_s):
    small = words(bytes([97, 0, HI]), 2)
    lists = [[a] for a in small] + [[a, b] for a in small for b in small] + [list(t) for t in itertools.product([b"", b"a", b"\x00"], repeat=3)]
    glues = {"char": [(bytes([c]), (lambda c=c: c)) for c in (44, 0, HI)],
             "ptr": [(g, (lambda g=g: cstr_of(g))) for g in (b",", b", ", bytes([HI, 97]), b"")],
             "view": [(b",", lambda: inside(b",", b"a", b",a")), (b"\x00", lambda: inside(b"\x00")), (b"\x00,", lambda: inside(b"\x00,")), (b"", lambda: inside(b"", b"", b",")),
                      (bytes([HI, 97]), lambda: view_of(bytes([HI, 97])))]}
    splitters = {"char": ("char", "view", "int"), "ptr": ("view", "view", "int"), "view": ("view", "view", "int")}

    def one(kind):
        fn = the_overload(tu_j, "tlx::join", (kind, "vec"))
        tag = "join(%s,vec)" % kind
        sp = the_overload(tu_s, "tlx::split", splitters[kind])
        n = back = 0
        for g, mk in glues[kind]:
            for parts in lists:
                want = g.join(parts)
                o = located(fn, lambda: observed(tu_j, fn, [mk(), Vec([Str(p) for p in parts], "str")]))
                if o != ("ok", want):
                    ck.violation("JOIN-SPLIT", fn.qname, tag, "glue=\"%s\" parts=%r: %s, the documented result is %r (the parts with the glue between each two)"
                                 % (hx(g), parts, shown(o), want), fn.loc)
                    return
                n += 1
                # the inverse: defined when the glue is not empty and occurs in the joined string at the glue positions only
                if not g:
                    continue
                at, p = [], 0
                for x in parts[:-1]:
                    p += len(x)
                    at.append(p)
                    p += len(g)
                if [i for i in range(len(want)) if want.startswith(g, i)] != at:
                    continue
                sep = g[0] if kind == "char" else view_of(g)
                r = located(sp, lambda: observed(tu_s, sp, [sep, view_of(want), NPOS]))
                if r != ("ok", parts):
                    ck.violation("JOIN-SPLIT", sp.qname, tag + ":split", "glue=\"%s\" parts=%r: join gives %r, but split of that with the same separator %s: "
                                 "the parts do not survive the round trip" % (hx(g), parts, want, shown(r)), sp.loc)
                    return
                back += 1
        ck.ok("JOIN-SPLIT", tag, "%d part lists x glue (1..3 parts over {a, NUL, 0xE9}, glue incl. NUL / 0xE9 / two bytes / a non-terminated view): the result is the "
              "parts with the glue between each two; for the %d of them whose glue neither occurs in nor straddles the parts split() returns the parts" % (n, back))
    present = overloads(tu_j, "tlx::join")
    for f in present:
        if f.file.endswith("join.cpp") and (len(f.params) != 2 or sig_of(f)[0] not in glues or sig_of(f)[1] != "vec"):
            ck.guarded(lambda f=f: undecided("%s: overload join(%s) has no input family in rule JOIN-SPLIT" % (f.loc, ", ".join(sig_of(f)))))
    for kind in ("char", "ptr", "view"):
        ck.guarded(lambda kind=kind: one(kind))


NORMALISED = ["tlx/string/%s.cpp" % f for f in ("base64", "hexdump", "split", "split_view", "join_quoted", "split_quoted", "compare_icase", "equal_icase",
                                                 "less_icase", "replace")]
# the helpers' translation units are taken as they are: the evaluating rules interpret calls of new private helpers and new
# locals themselves, and engine/normalize.py takes every function that data/known.json does not list for a new helper to inline
RAW = ["tlx/string/%s.cpp" % f for f in ("trim", "starts_with", "ends_with", "contains", "to_lower", "to_upper", "erase_all", "pad", "join")] + \
      ["tlx/string/levenshtein.hpp"]


class Units:
    """the translation units of this property, extracted side by side (the extractor is a subprocess); a unit that cannot be
    extracted raises where a rule asks for it"""

    def __init__(self):
        from concurrent.futures import ThreadPoolExecutor
        self.got = {}
        st = ir.stats()
        base = dict(tus=st["tus"], functions=st["functions"], nodes=st["nodes"], files=list(st["files"]))

        def job(src):
            try:
                return ir.extract(src, extra_flags=["-xc++"] if src.endswith(".hpp") else ())
            except Exception as e:          # handed to the rule that needs the unit
                return e
        workers = 1 if os.environ.get("VERIF_RECORD_KNOWN") else 8
        for group, raw in ((NORMALISED, False), (RAW, True)):
            old = os.environ.get("VERIF_NO_NORMALIZE")
            if raw:
                os.environ["VERIF_NO_NORMALIZE"] = "1"
            try:
                with ThreadPoolExecutor(max_workers=workers) as ex:
                    for src, r in zip(group, ex.map(job, group)):
                        self.got[src] = r
            finally:
                if raw and old is None:
                    del os.environ["VERIF_NO_NORMALIZE"]
                elif raw:
                    os.environ["VERIF_NO_NORMALIZE"] = old
        good = [(src, r) for src, r in self.got.items() if not isinstance(r, Exception)]          # the counters, independent of the threads' timing
        st["tus"] = base["tus"] + len(good)
        st["functions"] = base["functions"] + sum(len(r.functions) for _, r in good)
        st["nodes"] = base["nodes"] + sum(f.d.get("nodes", 0) for _, r in good for f in r.functions)
        st["files"][:] = base["files"] + [src for src, _ in good]

    def __call__(self, name):
        src = "tlx/string/" + name + ("" if name.endswith(".hpp") else ".cpp")
        r = self.got[src]
        if isinstance(r, Exception):
            raise r
        return r


def run(ck):
    ck.explanation = (
        "Writer/reader agreement decided by evaluating the extracted ASTs on a small abstract machine (integers, bytes, pointers into buffers, std::string, "
        "string_view, vector; whatever it does not model is 'cannot decide'): the base64 encoder and decoder are run on symbolic bytes / letters and every output "
        "bit is traced to its input bit (1/2/3 bytes, 2/3/4 letters), the tables found by that run are compared with RFC 4648 and the decoder is run with every "
        "special table value in front of each of the four letters of a group; hexdump / parse_hexdump are run on all 256 byte values and all digit pairs. "
        "SCAN-WINDOW / FORWARD-ROLES: every split / split_view overload is run on all strings over {a,b} up to length 4 and compared with the left-to-right "
        "non-overlapping cut (a window that leaves the string is a fault of the run). QUOTE-AGREE: split_quoted(join_quoted(v)) == v for all short field lists over "
        "the special characters. CMP3-ORIENT / ICASE-OVERLOADS: all 12 overloads on all pairs of short mixed-case strings. REPLACE-RESUME: all four replace_all "
        "overloads on all short strings. TRIM-SEMANTICS / AFFIX-SEMANTICS / CASE-MAP / ERASE-ALL / REPLACE-FIRST / REPLACE-BYTES / PAD / LEVENSHTEIN / "
        "JOIN-SPLIT: every overload of trim / trim_left / trim_right, starts_with(_icase) / ends_with(_icase) / contains, to_lower / to_upper, erase_all, "
        "replace_first / replace_all, pad, levenshtein(_icase) and join is run on a complete small family of inputs whose alphabets contain NUL and a byte >= 0x80 "
        "and whose drop sets / needles / glue are also string_views that are not NUL-terminated (views into the middle of a longer buffer), and compared with a "
        "direct implementation of the doc comment (strip the drop set from the documented ends, prefix / suffix / substring test, ASCII-only case map, filter, "
        "leftmost / left-to-right replacement, truncate-or-pad on the right, unit-cost edit distance, parts with glue between them and split as the inverse of join "
        "when the glue neither occurs in nor straddles the parts). Each overload is decided on its own; a missing, ambiguous or new overload is 'cannot decide'. "
        "Default arguments written in the headers are not decided.")
    ck.assumptions.append("tlx::to_lower / to_upper (defined in another translation unit) map A-Z / a-z and leave every other byte unchanged")
    ck.assumptions.append("std::string, std::vector, string_view members and the std algorithms used are modelled by their specification")
    ck.assumptions.append("tlx::simple_vector<integer> is modelled as an array whose elements start uninitialised (a read of one is 'cannot decide')")
    unit = Units()
    tu_b = unit("base64")
    ck.guarded(lambda: check_base64(ck, tu_b))
    tu_h = unit("hexdump")
    ck.guarded(lambda: check_hex(ck, tu_h))
    tu_s = unit("split")
    ck.guarded(lambda: check_split_family(ck, tu_s, "split"))
    tu_v = unit("split_view")
    ck.guarded(lambda: check_split_family(ck, tu_v, "split_view"))
    tu_j, tu_q = unit("join_quoted"), unit("split_quoted")
    ck.guarded(lambda: check_quote(ck, tu_j, tu_q))
    tus = {f: unit(f) for f in ("compare_icase", "equal_icase", "less_icase")}
    ck.guarded(lambda: check_icase(ck, tus))
    tu_r = unit("replace")
    ck.guarded(lambda: ck.require(check_replace(ck, tu_r) == 4, "expected the four replace_all overloads"))
    # ---- the pure helpers against their documented definition (each overload decided on its own)
    ck.guarded(lambda: check_replace_bytes(ck, tu_r))
    ck.guarded(lambda: check_trim(ck, unit("trim")))
    ck.guarded(lambda: check_affix(ck, unit("starts_with"), unit("ends_with"), unit("contains")))
    ck.guarded(lambda: check_case(ck, unit("to_lower"), "to_lower"))
    ck.guarded(lambda: check_case(ck, unit("to_upper"), "to_upper"))
    ck.guarded(lambda: check_erase_all(ck, unit("erase_all")))
    ck.guarded(lambda: check_pad(ck, unit("pad")))
    ck.guarded(lambda: check_levenshtein(ck, unit("levenshtein.hpp")))
    ck.guarded(lambda: check_join(ck, unit("join"), tu_s))
    for rule, n in (("TRIM-SEMANTICS", 27), ("AFFIX-SEMANTICS", 12), ("CASE-MAP", 6), ("ERASE-ALL", 4), ("REPLACE-FIRST", 4), ("REPLACE-BYTES", 4), ("PAD", 1),
                    ("LEVENSHTEIN", 4), ("JOIN-SPLIT", 3)):
        ck.floor(rule, n)
    ck.floor("REPLACE-RESUME", 4)
    ck.floor("B64-TABLES", 1)
    ck.floor("B64-SKIP", 1)
    ck.floor("B64-BITS", 1)
    ck.floor("HEX-TABLES", 1)
    ck.floor("SCAN-WINDOW", 2)
    ck.floor("QUOTE-AGREE", 2)
    ck.floor("CMP3-ORIENT", 4)
    ck.floor("ICASE-OVERLOADS", 8)
    ck.floor("FORWARD-ROLES", 8)
