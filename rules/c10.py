"""C10 — ThreadPool: lockset, take-atomic, run-unlocked, predicate-write => notify,
notify kind, job lifetime, busy pairing, join unlocked (engine B)."""
from engine import ir, dtable, match, sync, cfg as cfgm
from engine.ir import kids, strip_casts, const_int, ref_of

TP = "tlx::ThreadPool"
MUTEX = "mutex_"
GUARDED = ("jobs_",)          # frozen table: field -> guarded by mutex_   (confirmed by reading: every access of jobs_ is under mutex_)
# frozen exception table for WRITE-NOTIFY: (function, field, cv) -> reason
NOTIFY_EXCEPTIONS = {
    ("~ThreadPool", "terminate_", "cv_finished_"): "no thread may be waiting for completion while the pool is being destroyed",
}


def pred_info(tu, wait):
    """(normalised predicate text, {atom: monotone direction}) of a wait predicate lambda"""
    lam = wait["pred"]
    negate = False
    if lam is None:
        if wait.get("loop_cond") is None:
            return None
        # while (!pred) cv.wait(lock): the predicate is the negated loop condition
        e = wait["loop_cond"]
        negate = True
        lf = wait["fn"]
    else:
        lf = tu.by_did.get(lam.get("fn"))
        if lf is None:
            raise dtable.Undecidable("predicate lambda body not in IR")
        rets = [x for x in ir.walk(lf.body) if x["k"] == "ReturnStmt"]
        if len(rets) != 1:
            raise dtable.Undecidable("%s: predicate lambda with several returns" % lf.loc)
        e = kids(rets[0])[0]

    def atomize(n, run):
        c = match.call_named(n, ("empty",))
        if c is not None and "callee" in strip_casts(n) and match.this_field(kids(strip_casts(n))[0]):
            return ("%s.empty" % match.this_field(kids(strip_casts(n))[0]), False)
        b = match.binop(n, ("==", "!=", ">", "<"))
        if b:
            f = field_of_atomic(b[1])
            if f and const_int(b[2]) == 0:
                return ("%s==0" % f, b[0] in ("!=", ">"))
        f = field_of_atomic(n)
        if f:
            return (f, False)
        return None
    leaves = dtable.explore(e, atomize, lf, as_expr=True)
    atoms = dtable.atoms_of(leaves)
    rows = {}
    for v, l in dtable.table(leaves, None, atoms):
        rows[tuple(v[a] for a in atoms)] = (not l["result"]) if negate else l["result"]
    mono = {}
    for i, a in enumerate(atoms):
        up = down = False
        for key, val in rows.items():
            if not key[i]:
                k2 = key[:i] + (True,) + key[i + 1:]
                if rows[k2] and not val:
                    up = True
                if val and not rows[k2]:
                    down = True
        mono[a] = "up" if up and not down else "down" if down and not up else "both" if up and down else "none"
    # canonical text of the predicate: its truth table (so `wait(lock, pred)` and `while (!pred) wait(lock)` read the same)
    text = "{" + ",".join(atoms) + ":" + "".join("1" if rows[k] else "0" for k in sorted(rows)) + "}"
    return text, mono, lf


def field_of_atomic(e):
    """field name if e is (a load of) this->field, possibly through atomic conversion / load()"""
    e = strip_casts(e)
    if e is None:
        return None
    f = match.this_field(e)
    if f:
        return f
    if "callee" in e and e.get("member_call") and e["callee"]["name"] in ("load", "operator unsigned long", "operator bool", "operator int") \
            or ("callee" in e and e.get("member_call") and e["callee"]["name"].startswith("operator ")):
        return match.this_field(kids(e)[0])
    return None


def field_writes(fn):
    """[(node, field, effect)] effect: atom -> new truth direction ('true'|'false'|'unknown')"""
    out = []
    for x in fn.nodes():
        if "callee" in x and (x.get("member_call") or x["k"] == "CXXOperatorCallExpr") and kids(x):
            f = match.this_field(kids(x)[0])
            name = x["callee"]["name"]
            if f and not x["callee"].get("const"):
                if name in ("push_back", "emplace_back", "push_front", "emplace_front", "push", "emplace"):
                    out.append((x, f, {f + ".empty": "false"}))
                elif name in ("pop_front", "pop_back", "pop", "clear", "erase"):
                    out.append((x, f, {f + ".empty": "true"}))
                elif name in ("operator++", "fetch_add"):
                    out.append((x, f, {f + "==0": "false"}))
                elif name in ("operator--", "fetch_sub"):
                    out.append((x, f, {f + "==0": "true"}))
                elif name in ("operator=", "store", "exchange"):
                    v = const_int(kids(x)[1]) if len(kids(x)) > 1 else None
                    out.append((x, f, {f: "true" if v else "false" if v is not None else "unknown", f + "==0": "true" if v == 0 else "false" if v else "unknown"}))
        b = match.binop(x, ("=",))
        if b and match.this_field(b[1]) and strip_casts(b[1])["k"] == "MemberExpr":
            f = match.this_field(b[1])
            v = const_int(b[2])
            out.append((x, f, {f: "true" if v else "false" if v is not None else "unknown"}))
        if x["k"] == "CompoundAssignOperator" and x.get("op") in ("+=", "-=") and match.this_field(kids(x)[0]):
            f = match.this_field(kids(x)[0])
            out.append((x, f, {f + "==0": "false" if x["op"] == "+=" else "true"}))
        u = match.unop(x, ("++", "--"))
        if u and match.this_field(u[1]) and x["k"] == "UnaryOperator":
            out.append((x, match.this_field(u[1]), {match.this_field(u[1]) + "==0": "false" if u[0] == "++" else "true"}))
    return out


def lambda_always_locked(tu, fns, flows, lam):
    """a named lambda (auto f = [..]{..};) counts as evaluated under the mutex if each use of the variable is either the
    predicate argument of a condition-variable wait or a direct call at a point where the mutex is held"""
    for fn in fns:
        for x in fn.nodes():
            if x["k"] == "LambdaExpr" and x.get("fn") == lam.did:
                par = fn.parent(x)
                while par is not None and par["k"] not in ("VarDecl", "CompoundStmt"):
                    par = fn.parent(par)
                if par is None or par["k"] != "VarDecl":
                    return False
                var = par["did"]
                uses = [y for y in fn.nodes() if y["k"] == "DeclRefExpr" and y["ref"]["id"] == var]
                if not uses:
                    return False
                for u in uses:
                    q = fn.parent(u)
                    while q is not None and q["k"] in ("ImplicitCastExpr", "CXXConstructExpr", "MaterializeTemporaryExpr"):
                        q = fn.parent(q)
                    if q is not None and "callee" in q and q["callee"]["name"] in ("wait", "wait_for", "wait_until"):
                        continue
                    if q is not None and "callee" in q and q.get("op") == "()" and flows[fn.did].held_at(q) is True:
                        continue
                    return False
                return True
    return False


def same_hold(g, wf, fn, pa, pb):
    """positions pa and pb are executed in one hold of the mutex: the lock is held at both and no unlock()/wait lies on a
    path between them (in the order in which they are executed)"""
    if pa is None or pb is None or wf.held_at_pos(pa) is not True or wf.held_at_pos(pb) is not True:
        return False
    first, second = (pa, pb) if g.dominates(pa, pb) else (pb, pa) if g.dominates(pb, pa) else (None, None)
    if first is None:
        return False
    rel = [g.pos(u) for u in fn.nodes() if "callee" in u and u.get("member_call") and u["callee"]["name"] in ("unlock", "wait", "wait_for", "wait_until") and g.pos(u)]
    for r in rel:
        if g.path_between_avoiding(first, r, [first]) is not None and g.path_between_avoiding(r, second, [first]) is not None:
            return False
    return True


def run(ck):
    ck.explanation = (
        "Lock-state dataflow (engine B) over the CFG of every ThreadPool member: mutex_ held / not held at every element, through RAII guards, "
        "explicit lock()/unlock() and condition-variable waits. Rules: LOCKSET (jobs_ only under mutex_, predicate lambdas count as held), "
        "TAKE-ATOMIC (front+pop_front in one hold after !empty), RUN-UNLOCKED (job invoked with the mutex released), JOB-LIFETIME (the job object "
        "is destroyed with the mutex released and before completion is signalled), WRITE-NOTIFY (every enabling write to a variable of a wait "
        "predicate - polarity derived from the predicate's truth table - is followed on all paths by a notify on that condition variable, with the "
        "mutex held at the write or at the notify), NOTIFY-KIND (notify_one only where one predicate is shared by all waiters and one unit is handed "
        "out), NO-BARE-WAIT, BUSY-PAIR, JOIN-UNLOCKED. Whole-schedule properties (absence of deadlock / lost wake-up, exactly-once) are argued "
        "from these necessary conditions, not explored.")
    tu = ir.extract("tlx/thread_pool.cpp", ndebug=True)
    fns = [f for f in tu.find(record=TP)]
    ck.require(len(fns) >= 10, "ThreadPool members not found")
    flows = {}
    for fn in fns:
        if fn.cfg:
            flows[fn.did] = sync.LockFlow(fn, MUTEX)
    lambdas = [f for f in tu.functions if f.kind == "lambda" and f.qname.startswith(TP + "::")]
    # ---- waits and predicates
    waits = []
    for fn in fns:
        for w in sync.wait_calls(fn):
            w["fn"] = fn
            waits.append(w)
    ck.require(len(waits) >= 3, "expected at least 3 condition-variable waits, found %d" % len(waits))
    preds = {}           # cv -> list of (text, mono, fn)
    pred_lambda_ids = set()
    for w in waits:
        fn = w["fn"]
        if w["pred"] is None and w.get("loop_cond") is not None:
            text, mono, lf = pred_info(tu, w)
            preds.setdefault(w["cv"], []).append((text, mono, fn))
            held = flows[fn.did].held_at(w["node"])
            if held is not True:
                ck.violation("NO-BARE-WAIT", fn.qname, "%s:%s:unlocked" % (fn.name, w["cv"]), "wait() is called without holding the mutex", fn.nloc(w["node"]))
            else:
                ck.ok("NO-BARE-WAIT", "%s %s" % (fn.qname, w["cv"]), "wait inside `while (!predicate)` with the mutex held: %s" % text)
            continue
        if w["pred"] is None:
            # bare wait: must sit in a loop re-checking
            par = fn.parent(w["node"])
            inloop = False
            while par is not None:
                if par["k"] in ("WhileStmt", "DoStmt", "ForStmt"):
                    inloop = True
                par = fn.parent(par)
            if not inloop:
                ck.violation("NO-BARE-WAIT", fn.qname, "%s:%s" % (fn.name, w["cv"]), "wait() without predicate and without an enclosing re-check loop (spurious wake-ups)", fn.nloc(w["node"]))
            else:
                ck.ok("NO-BARE-WAIT", "%s %s" % (fn.qname, w["cv"]), "bare wait inside a re-check loop")
            continue
        text, mono, lf = pred_info(tu, w)
        pred_lambda_ids.add(lf.did)
        preds.setdefault(w["cv"], []).append((text, mono, fn))
        held = flows[fn.did].held_at(w["node"])
        if held is not True:
            ck.violation("NO-BARE-WAIT", fn.qname, "%s:%s:unlocked" % (fn.name, w["cv"]), "wait() is called without holding the mutex", fn.nloc(w["node"]))
        else:
            ck.ok("NO-BARE-WAIT", "%s %s" % (fn.qname, w["cv"]), "predicate wait with the mutex held: %s" % text)
    # ---- LOCKSET
    n_acc = 0
    for fn in fns + lambdas:
        for x in fn.nodes():
            if x["k"] == "MemberExpr" and match.this_field(x) in GUARDED:
                n_acc += 1
                if fn.kind == "lambda":
                    if fn.did in pred_lambda_ids or lambda_always_locked(tu, fns, flows, fn):
                        ck.ok("LOCKSET", "%s @%s" % (fn.qname, fn.nloc(x)), "%s read in a wait predicate (evaluated with the mutex held)" % match.this_field(x), nontrivial=False)
                    else:
                        ck.violation("LOCKSET", fn.qname, "lambda:" + match.this_field(x), "%s accessed in a lambda that is not a wait predicate" % match.this_field(x), fn.nloc(x))
                    continue
                if fn.kind in ("ctor",):
                    continue
                held = flows[fn.did].held_at(x)
                if held is True:
                    ck.ok("LOCKSET", "%s @%s" % (fn.qname, fn.nloc(x)), "%s accessed with mutex_ held" % match.this_field(x), nontrivial=False)
                else:
                    ck.violation("LOCKSET", fn.qname, "%s:%s" % (fn.name, match.this_field(x)),
                                 "%s is accessed while mutex_ is %s" % (match.this_field(x), "not held" if held is False else "not held on some path"), fn.nloc(x))
    # ---- worker rules
    worker = tu.one(qname=TP + "::worker")
    wf = flows[worker.did]
    g = wf.g
    fronts = [x for x in worker.nodes() if "callee" in x and x.get("member_call") and x["callee"]["name"] == "front" and match.this_field(kids(x)[0]) == "jobs_"]
    pops = [x for x in worker.nodes() if "callee" in x and x.get("member_call") and x["callee"]["name"] in ("pop_front",) and match.this_field(kids(x)[0]) == "jobs_"]
    ck.require(len(fronts) == 1 and len(pops) == 1, "worker: front()/pop_front() of the job queue not found")
    # same hold: no unlock between front and pop
    unlocks = [x for x in worker.nodes() if "callee" in x and x.get("member_call") and x["callee"]["name"] == "unlock"]
    pf, pp = g.pos(fronts[0]), g.pos(pops[0])
    between = [u for u in unlocks if g.pos(u) and g.dominates(pf, g.pos(u)) and g.dominates(g.pos(u), pp)]
    # dominated by !jobs_.empty()
    guard_ok = False
    par = worker.parent(fronts[0])
    while par is not None:
        if par["k"] == "IfStmt":
            c = kids(par)[0]
            u = match.unop(c, ("!",))
            if u and match.call_named(u[1], ("empty",)) and match.this_field(kids(strip_casts(u[1]))[0]) == "jobs_" and \
                    any(y is fronts[0] for y in ir.walk(kids(par)[1])):
                # no unlock between the test and the take
                pc = g.pos_deep(c)
                if not [u2 for u2 in unlocks if g.pos(u2) and g.dominates(pc, g.pos(u2)) and g.dominates(g.pos(u2), pf)]:
                    guard_ok = True
        par = worker.parent(par)
    if between or not guard_ok or not g.dominates(pf, pp):
        ck.violation("TAKE-ATOMIC", worker.qname, "take", "a job is not taken (front + pop_front) inside one lock hold guarded by !jobs_.empty(): another worker can take the same job", worker.nloc(fronts[0]))
    else:
        ck.ok("TAKE-ATOMIC", worker.qname, "front() and pop_front() in one hold of mutex_, dominated by !jobs_.empty()")
    # job invocation: functor call on a local of delegate type
    jobvars = [x for x in worker.nodes() if x["k"] == "VarDecl" and "Delegate" in x.get("ty", "")]
    ck.require(len(jobvars) == 1, "worker: local job object not found")
    jv = jobvars[0]
    calls = [x for x in worker.nodes() if "callee" in x and x.get("op") == "()" and kids(x) and ref_of(kids(x)[0]) == jv["did"]]
    helper = None
    if not calls:
        # the invocation may sit in a small helper that receives the job: run_job(job)
        for x in worker.nodes():
            if "callee" in x and any(ref_of(a) == jv["did"] for a in kids(x)):
                cal = tu.by_did.get(x["callee"]["did"])
                if cal is None or cal.body is None:
                    continue
                pidx = [i for i, a in enumerate(kids(x)[(1 if x.get("member_call") else 0):]) if ref_of(a) == jv["did"]]
                if not pidx or pidx[0] >= len(cal.params):
                    continue
                pd = cal.params[pidx[0]]["did"]
                if any("callee" in y and y.get("op") == "()" and kids(y) and ref_of(kids(y)[0]) == pd for y in cal.nodes()):
                    calls.append(x)
                    helper = cal
    ck.require(len(calls) == 1, "worker: job invocation not found")
    call = calls[0]
    if wf.held_at(call) is not False:
        ck.violation("RUN-UNLOCKED", worker.qname, "job()", "the job is invoked while mutex_ may be held: a job that enqueues another job deadlocks", worker.nloc(call))
    else:
        ck.ok("RUN-UNLOCKED", worker.qname, "job() is invoked with mutex_ released")
    # busy pairing
    incs = [x for x, f, e in field_writes(worker) if f == "busy_" and e.get("busy_==0") == "false"]
    decs = [x for x, f, e in field_writes(worker) if f == "busy_" and e.get("busy_==0") == "true"]
    dones = [x for x, f, e in field_writes(worker) if f == "done_"]
    pcall = g.pos(call)
    okb = len(incs) == 1 and len(decs) == 1 and len(dones) == 1 and g.dominates(g.pos(incs[0]), pcall) and \
        g.postdominates(g.pos(decs[0]), pcall) and g.postdominates(g.pos(dones[0]), pcall) and \
        wf.held_at(incs[0]) is True and same_hold(g, wf, worker, g.pos(incs[0]), pp)
    # the increment and the pop happen in one hold of the mutex (either order): otherwise jobs_.empty() && busy_ == 0 is observable
    # by loop_until_empty(), which reads both under the lock, while a job is in flight
    if okb and g.dominates(g.pos(dones[0]), g.pos(decs[0])):
        ck.ok("BUSY-PAIR", worker.qname, "++busy_ (under the lock, before the job leaves the queue) ... job() ... ++done_, --busy_ on every path")
    else:
        ck.violation("BUSY-PAIR", worker.qname, "busy", "busy_/done_ accounting does not bracket the job: ++busy_ must happen under the lock before pop_front, "
                     "++done_ then --busy_ after the job on every path", worker.loc)
    # exceptions: a job may throw; whatever must happen after the job (counters, re-lock, notify) must not share the try block
    # with the invocation, otherwise the handler is entered with those steps skipped
    tries = []
    q = worker.parent(call)
    while q is not None:
        if q["k"] == "CXXTryStmt":
            tries.append(q)
        q = worker.parent(q)
    if not tries and helper is not None and any(y["k"] == "CXXTryStmt" for y in helper.nodes()):
        ck.ok("EXCEPTION-BALANCED", worker.qname, "the job runs inside %s(), whose try block contains nothing but the invocation" % helper.name)
        tries = None
    if tries is None:
        pass
    elif not tries:
        ck.violation("EXCEPTION-BALANCED", worker.qname, "no-try", "the job is invoked outside any try block: a throwing job kills the worker with busy_ still raised",
                     worker.nloc(call))
    else:
        t = tries[0]
        block = kids(t)[0]
        skipped = []
        for x, f, e in field_writes(worker):
            if f in ("busy_", "done_", "idle_") and any(y is x for y in ir.walk(block)):
                skipped.append((x, f))
        for x in ir.walk(block):
            if "callee" in x and x.get("member_call") and x["callee"]["name"] in ("lock", "notify_all", "notify_one"):
                skipped.append((x, x["callee"]["name"] + "()"))
        # steps repeated in every handler are fine
        handlers = kids(t)[1:]
        really = []
        for x, what in skipped:
            if not g.reachable(pcall, g.pos_deep(x)):
                continue      # before the job: not skipped by its exception
            in_all = handlers and all(any((ff == what) and any(y is xx for y in ir.walk(h)) for xx, ff, ee in field_writes(worker)) for h in handlers)
            if not in_all:
                really.append((x, what))
        if really:
            x, what = really[0]
            ck.violation("EXCEPTION-BALANCED", worker.qname, "try:" + what,
                         "%s follows job() inside the same try block: a job that throws jumps to the handler and skips it, busy_ then never returns to "
                         "zero and loop_until_empty() / loop_until_terminate() block for ever" % what, worker.nloc(x))
        else:
            ck.ok("EXCEPTION-BALANCED", worker.qname, "the try block around job() contains none of the completion steps (%d handler(s))" % len(handlers))
    # job lifetime: destroyed unlocked, before completion is signalled
    dt = [(b, i) for b in g.blocks for i, el in enumerate(g.elements(b)) if isinstance(el, dict) and el.get("dtor") == jv["did"]]
    ok_l = bool(dt) and bool(decs)
    why = ""
    for p in dt:
        if wf.held_at_pos(p) is not False:
            ok_l, why = False, "the job object is destroyed while mutex_ is held (a destructor that enqueues deadlocks)"
        if decs and not g.dominates(p, g.pos(decs[0])) and g.reachable(pcall, p):
            ok_l, why = False, "the job object outlives the completion signal: loop_until_empty() can return while the job's captures are still alive"
    asg = [x for x in worker.nodes() if "callee" in x and x.get("op") == "=" and kids(x) and ref_of(kids(x)[0]) == jv["did"]]
    if asg:
        ok_l, why = False, "the job variable is re-assigned (the previous closure is destroyed at the assignment, under the lock)"
    if ok_l:
        ck.ok("JOB-LIFETIME", worker.qname, "the job object is destroyed with mutex_ released and before --busy_")
    elif not why:
        raise dtable.Undecidable("%s: job object lifetime not understood (no destructor point / completion counter found)" % worker.loc)
    else:
        ck.violation("JOB-LIFETIME", worker.qname, "job-dtor", why, worker.nloc(jv))
    # ---- WRITE-NOTIFY and NOTIFY-KIND
    pvars = {}
    for cv, lst in preds.items():
        s = set()
        for text, mono, fn in lst:
            s |= set(mono)
        pvars[cv] = s
    n_w = 0
    for fn in fns:
        if fn.kind == "ctor" or not fn.cfg:
            continue
        fl = flows[fn.did]
        gg = fl.g
        notes = sync.notify_calls(fn)
        for x, f, eff in field_writes(fn):
            for cv, lst in preds.items():
                enabling = False
                for text, mono, pfn in lst:
                    for atom, direction in eff.items():
                        if atom in mono:
                            m = mono[atom]
                            if direction == "unknown" or m == "both" or (m == "up" and direction == "true") or (m == "down" and direction == "false"):
                                enabling = True
                if not enabling:
                    continue
                n_w += 1
                where = "%s: %s -> %s" % (fn.qname, dtable.describe(x)[:40], cv)
                exc = NOTIFY_EXCEPTIONS.get((fn.name, f, cv))
                if exc:
                    ck.ok("WRITE-NOTIFY", where, "exception table: " + exc, nontrivial=False)
                    continue
                ns = [n for n in notes if n["cv"] == cv and gg.pos(n["node"])]
                px = gg.pos_deep(x)
                if not ns or gg.path_avoiding(px, [gg.pos(n["node"]) for n in ns]) is not None:
                    ck.violation("WRITE-NOTIFY", fn.qname, "%s:%s:%s" % (fn.name, f, cv),
                                 "%s may make a predicate of %s true but there is a path on which %s is not notified afterwards (lost wake-up)"
                                 % (dtable.describe(x)[:50], cv, cv), fn.nloc(x))
                    continue
                held_w = fl.held_at(x)
                held_n = all(fl.held_at(n["node"]) is True for n in ns if gg.reachable(px, gg.pos(n["node"])))
                if held_w is True or held_n:
                    ck.ok("WRITE-NOTIFY", where, "followed by notify on all paths; mutex_ held at the %s" % ("write" if held_w is True else "notify"))
                else:
                    ck.violation("WRITE-NOTIFY", fn.qname, "%s:%s:%s:unlocked" % (fn.name, f, cv),
                                 "%s changes a wait predicate of %s with mutex_ neither held at the write nor at the notify: a waiter that has just "
                                 "evaluated its predicate misses the notification" % (dtable.describe(x)[:50], cv), fn.nloc(x))
    # notify kind
    for fn in fns:
        for n in sync.notify_calls(fn):
            cv = n["cv"]
            lst = preds.get(cv, [])
            distinct = sorted(set(t for t, m, f in lst))
            where = "%s %s.%s" % (fn.qname, cv, n["kind"])
            if n["kind"] == "notify_all":
                ck.ok("NOTIFY-KIND", where, "notify_all")
                continue
            if len(distinct) > 1:
                ck.violation("NOTIFY-KIND", fn.qname, "%s:%s" % (fn.name, cv),
                             "%s is waited on with %d different predicates (%s) but signalled with notify_one: the single wake-up can go to a waiter "
                             "whose predicate is false while the one that could proceed stays blocked" % (cv, len(distinct), " | ".join(distinct)), fn.nloc(n["node"]))
                continue
            # one shared predicate: notify_one only for a write that hands out a single unit
            fl = flows[fn.did]
            gg = fl.g
            flagw = [x for x, f, eff in field_writes(fn) if any(k == f and v == "true" for k, v in eff.items()) and f in [a for a in pvars.get(cv, ())]
                     and gg.pos_deep(x) and gg.reachable(gg.pos_deep(x), gg.pos(n["node"]))]
            if flagw:
                ck.violation("NOTIFY-KIND", fn.qname, "%s:%s:flag" % (fn.name, cv), "a flag that releases every waiter is published with notify_one", fn.nloc(n["node"]))
            else:
                ck.ok("NOTIFY-KIND", where, "single predicate (%s), one unit handed out" % (distinct[0] if distinct else "?"))
    # ---- join with the mutex released; destructor order
    for fn in fns:
        for x in fn.nodes():
            if "callee" in x and x.get("member_call") and x["callee"]["name"] == "join" and "thread" in (x["callee"].get("record") or ""):
                if flows[fn.did].held_at(x) is not False:
                    ck.violation("JOIN-UNLOCKED", fn.qname, fn.name + ":join", "threads are joined while mutex_ is held: the workers need it to leave", fn.nloc(x))
                else:
                    lp = fn.parent(x)
                    while lp is not None and lp["k"] not in ("ForStmt", "CXXForRangeStmt", "WhileStmt"):
                        lp = fn.parent(lp)
                    full = False
                    if lp is not None and lp["k"] == "CXXForRangeStmt":
                        full = any(match.this_field(y) == "threads_" for y in ir.walk(kids(lp)[0])) if kids(lp) else False
                        if not full:
                            full = any(y["k"] == "MemberExpr" and match.this_field(y) == "threads_" for y in ir.walk(lp))
                    elif lp is not None and lp["k"] == "WhileStmt":
                        raise dtable.Undecidable("%s: join loop form not understood" % fn.nloc(lp))
                    elif lp is not None:
                        init, cond, inc, body = match.loop_parts(lp)
                        b = match.binop(cond, ("<", "!="))
                        full = bool(b and match.call_named(b[2], ("size",)) and match.this_field(kids(strip_casts(b[2]))[0]) == "threads_"
                                    and any(y["k"] == "VarDecl" and kids(y) and const_int(kids(y)[0]) == 0 for y in ir.walk(init)))
                    if full:
                        ck.ok("JOIN-UNLOCKED", fn.qname, "every thread joined with mutex_ released")
                    else:
                        ck.violation("JOIN-UNLOCKED", fn.qname, fn.name + ":join-all", "not every worker thread is joined", fn.nloc(x))
    ck.floor("LOCKSET", 6)
    ck.floor("NO-BARE-WAIT", 3)
    ck.floor("WRITE-NOTIFY", 6)
    ck.floor("NOTIFY-KIND", 5)
    ck.floor("TAKE-ATOMIC", 1)
    ck.floor("RUN-UNLOCKED", 1)
    ck.floor("BUSY-PAIR", 1)
    ck.floor("EXCEPTION-BALANCED", 1)
    ck.floor("JOB-LIFETIME", 1)
    ck.floor("JOIN-UNLOCKED", 1)
