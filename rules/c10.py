"""C10 — ThreadPool: lockset, take-atomic, run-unlocked, predicate-write => notify,
notify kind, job lifetime, busy pairing, join unlocked, return of the blocking members only after their whole wait predicate (engine B).

Verdict policy of this file: a violation is reported only on positive evidence (a lock state computed over lock
operations that are all recognised, a CFG path that avoids a set of fully classified operations, a truth table, an
evaluation of the join loop for a concrete thread count).  Whatever is not recognised (an unknown use of the mutex or of
a guard, an unclassified operation on a counter / the queue / the job object, a helper that was not inlined, a branch on a
control-flow flag on the witness path) makes the answer `cannot decide` (dtable.Undecidable, exit 2).

A local lvalue reference that is bound directly to a data member (`const std::atomic<bool>& stop = terminate_;`) is replaced by
that member wherever it is mentioned, also inside lambdas that capture it by reference (resolve_member_aliases): the rules then
judge the operations on the member itself.  A copy capture, a static reference or a pointer to the member is left alone.

A local lambda that is only called by name in statement position (`const auto step = [this, &lock] {...}; step();`, also in the
init / increment slot of a for loop) is expanded at its calls before the rules run (inline_local_lambdas); every other lambda
that is not a wait predicate and touches the mutex / a guard / the queue / a counter / a condition variable makes the rules
that depend on it undecidable.

A local lambda without parameters that classifies the pool state into an enumeration by reading data members only (`const auto
next_step = [this]() -> Next {...};`) and is used for nothing but `next_step() == K` / `!= K` / `switch (next_step())` is replaced by
its value at these calls, also inside lambdas that capture it by reference (inline_classifier_lambdas).

A member function of the pool that is new (not in data/known.json), contains a try block (engine/normalize.py leaves those alone) and
is only called on *this in statement position (`run_front_job(lock);`) is expanded at its calls as one compound statement, a guard
passed by reference being the caller's guard (inline_try_helpers); the helper is then judged through its callers only.

`job.swap(jobs_.front())` on the job object is read as a load of the closure of the queue element; the previous content of the job
object goes into the queue slot, so JOB-LIFETIME demands that the job object is empty there (no path from a load / the invocation
to the swap without a destruction in between).  A swap with anything else stays `cannot decide`."""
import copy

from engine import ir, dtable, match, sync, skel, normalize, cfgbuild
from engine.ir import kids, strip_casts, const_int, ref_of

TP = "tlx::ThreadPool"
MUTEX = "mutex_"
QUEUE = "jobs_"
GUARDED = (QUEUE,)          # frozen table: field -> guarded by mutex_   (confirmed by reading: every access of jobs_ is under mutex_)
# frozen exception table for WRITE-NOTIFY: (function, field, cv) -> reason
NOTIFY_EXCEPTIONS = {
    ("~ThreadPool", "terminate_", "cv_finished_"): "no thread may be waiting for completion while the pool is being destroyed",
}

WRAPPERS = ("ImplicitCastExpr", "CStyleCastExpr", "CXXStaticCastExpr", "CXXFunctionalCastExpr", "CXXReinterpretCastExpr", "CXXConstCastExpr",
            "ParenExpr", "MaterializeTemporaryExpr", "ExprWithCleanups", "CXXBindTemporaryExpr", "ConstantExpr")
WAITS = ("wait", "wait_for", "wait_until")
PUSH = ("push_back", "emplace_back", "push_front", "emplace_front", "push", "emplace")
POP = ("pop_front", "pop_back", "pop", "clear", "erase")
CONTAINER_READ = ("empty", "size", "front", "back", "begin", "end", "cbegin", "cend", "rbegin", "rend", "crbegin", "crend", "at", "operator[]", "max_size", "data")
# algorithms of the standard library that call their functor before they return, on the calling thread
SYNC_ALGOS = ("for_each", "for_each_n", "all_of", "any_of", "none_of", "find_if", "find_if_not", "count_if", "generate", "generate_n", "transform",
              "remove_if", "accumulate")


def undecided(fn, node, what):
    raise dtable.Undecidable("%s: %s" % (fn.nloc(node) if node is not None else fn.loc, what))


def up(fn, n):
    """(p, c, casts): nearest ancestor p of n that is not a cast / wrapper, the child c of p through which n is reached, and the
    cast kinds passed on the way"""
    c, p, casts = n, fn.parent(n), []
    while p is not None and p["k"] in WRAPPERS:
        casts.append(p.get("cast"))
        c, p = p, fn.parent(p)
    return p, c, casts


def is_first(p, c):
    return bool(kids(p)) and kids(p)[0] is not None and kids(p)[0]["id"] == c["id"]


def is_invoke(x):
    """x calls its first child as a functor: f(...) or f.operator()(...)"""
    return "callee" in x and bool(kids(x)) and (x.get("op") == "()" or (bool(x.get("member_call")) and x["callee"]["name"] == "operator()"))


def mentions(e, field):
    return any(y["k"] == "MemberExpr" and match.this_field(y) == field for y in ir.walk(e))


# ------------------------------------------------------------------------------------------------ local lambdas called by name
LOOPS = ("WhileStmt", "ForStmt", "DoStmt", "CXXForRangeStmt")
# terminators of a CFG block whose two successors are `condition true` / `condition false` (&& and || are BinaryOperators)
TWO_WAY = ("IfStmt", "WhileStmt", "ForStmt", "DoStmt", "ConditionalOperator", "BinaryOperator")


def _lambda_of(e):
    """the LambdaExpr a local is initialised with (through casts, temporaries and the copy / move construction of the closure)"""
    while e is not None and e["k"] != "LambdaExpr" and (e["k"] in WRAPPERS or e["k"] in ("CXXConstructExpr", "CXXTemporaryObjectExpr")) and len(kids(e)) == 1:
        e = kids(e)[0]
    return e if e is not None and e["k"] == "LambdaExpr" else None


def _own_continue(s):
    """s contains a `continue` that belongs to the loop whose body s is"""
    if s is None:
        return False
    if s["k"] == "ContinueStmt":
        return True
    if s["k"] in LOOPS:
        return False
    return any(_own_continue(c) for c in kids(s))


def _parents(root):
    par = {}
    for n, p in ir.walk_with_parent(root):
        par[n["id"]] = p
    return par


def _replace_child(parent, old, new):
    for i, c in enumerate(parent.get("ch") or []):
        if c is old:
            parent["ch"][i] = new
            return
    raise normalize.Fail("child not found")


def _expand_lambda(tu, fn, rw, body, v, lam, lf):
    """expands every call of the local lambda v (declaration in body) in place; normalize.Fail if any use of v is not a call in
    statement position or the expansion is not safe.  body is a private copy: a failure half way leaves nothing behind"""
    for c in (lam.get("captures") or []):
        if c.get("byref"):
            continue
        # a copy made when the lambda is created is the value at the call only if the variable never changes: every mention of
        # it, in fn and in the lambda, must be a plain read of its value
        if c.get("name") == "this" or c.get("id") is None:
            raise normalize.Fail("captures *this / an init-capture by copy")
        for root in (body, lf.body):
            par = _parents(root)
            for y in ir.walk(root):
                if y["k"] == "LambdaExpr" and y is not lam and y.get("id") != lam.get("id") and any(c2.get("id") == c["id"] and c2.get("byref") for c2 in (y.get("captures") or [])):
                    raise normalize.Fail("captured by reference elsewhere")
                if y["k"] != "DeclRefExpr" or y["ref"]["id"] != c["id"]:
                    continue
                x, q = y, par.get(y["id"])
                while q is not None and q["k"] == "ParenExpr":
                    x, q = q, par.get(q["id"])
                # (the extractor drops lvalue-to-rvalue conversions: a read is told by what uses the value)
                reads = q is not None and (
                    (q["k"] == "BinaryOperator" and (q.get("op") != "=" or kids(q)[0] is not x) and q.get("op") not in (".*", "->*")) or
                    (q["k"] == "UnaryOperator" and q.get("op") in ("-", "+", "!", "~")) or
                    (q["k"] in ("ImplicitCastExpr", "CStyleCastExpr", "CXXStaticCastExpr", "CXXFunctionalCastExpr") and
                     q.get("cast") in ("IntegralCast", "IntegralToBoolean", "IntegralToFloating", "FloatingCast", "FloatingToIntegral", "ToVoid", "NoOp", "LValueToRValue")
                     and not (q.get("ty") or "").rstrip().endswith("&")) or
                    (q["k"] in ("IfStmt", "WhileStmt", "ConditionalOperator") and kids(q)[0] is x) or
                    (q["k"] == "ArraySubscriptExpr" and len(kids(q)) == 2 and kids(q)[1] is x))
                if not reads:
                    raise normalize.Fail("captures by copy a variable that is not only read")
    if any(y["k"] in ("GotoStmt", "LabelStmt", "IndirectGotoStmt") or (y["k"] == "VarDecl" and y.get("static")) for y in ir.walk(lf.body)):
        raise normalize.Fail("goto / static local")
    for f2 in tu.functions:
        if f2 is not fn and any(y["k"] == "DeclRefExpr" and y["ref"]["id"] == v["did"] for y in f2.nodes()):
            raise normalize.Fail("the lambda is used from another function")
    par = _parents(body)
    ds = par.get(v["id"])
    if ds is None or ds["k"] != "DeclStmt" or len(kids(ds)) != 1 or par.get(ds["id"]) is None or par[ds["id"]]["k"] != "CompoundStmt":
        raise normalize.Fail("declaration form")

    def expansion(call):
        fake = {"k": "CallExpr", "id": call["id"], "l": call.get("l"), "ch": list(kids(call)[1:])}
        pro, subst, rename = rw.bind(lf, fake)
        stmts = [rw.simplify(rw.clone(x, subst, rename)) for x in kids(lf.body)]
        stmts = rw.deret(stmts, lambda e: ([e] if e is not None and not rw.side_effect_free(e) else []))
        return {"k": "CompoundStmt", "id": rw.fresh(), "l": call.get("l"), "ch": pro + stmts}
    count = 0
    while True:
        use = None
        for y in ir.walk(body):
            if y["k"] == "DeclRefExpr" and y["ref"]["id"] == v["did"]:
                use = y
                break
        if use is None:
            break
        count += 1
        if count > 16:
            raise normalize.Fail("too many calls")
        par = _parents(body)
        c, p = use, par.get(use["id"])
        while p is not None and p["k"] in WRAPPERS:
            c, p = p, par.get(p["id"])
        if p is None or not is_invoke(p) or not is_first(p, c) or p["callee"].get("did") != lf.did:
            raise normalize.Fail("the lambda is used for something else than a call")
        call = top = p
        q = par.get(top["id"])
        while q is not None and q["k"] == "ExprWithCleanups":
            top, q = q, par.get(q["id"])
        if q is None or not any(x is top for x in kids(q)):
            raise normalize.Fail("call position")
        ch = kids(q)
        if q["k"] == "CompoundStmt" or (q["k"] == "IfStmt" and top is not ch[0]) or (q["k"] == "WhileStmt" and top is ch[1]) or \
                (q["k"] == "ForStmt" and len(ch) == 4 and top is ch[3]) or (q["k"] == "DoStmt" and top is ch[0]):
            _replace_child(q, top, expansion(call))
        elif q["k"] == "ForStmt" and len(ch) == 4 and top is ch[0]:
            # for (step(); c; i) b   ->   { step(); for (; c; i) b }
            gp = par.get(q["id"])
            if gp is None:
                raise normalize.Fail("loop position")
            q["ch"][0] = None
            _replace_child(gp, q, {"k": "CompoundStmt", "id": rw.fresh(), "l": q.get("l"), "ch": [expansion(call), q]})
        elif q["k"] == "ForStmt" and len(ch) == 4 and top is ch[2]:
            # for (a; c; step()) b   ->   for (a; c; ) { b; step(); }     (b has no continue of this loop)
            if _own_continue(ch[3]):
                raise normalize.Fail("continue in the loop body")
            q["ch"][2] = None
            q["ch"][3] = {"k": "CompoundStmt", "id": rw.fresh(), "l": q.get("l"), "ch": [ch[3], expansion(call)]}
        else:
            raise normalize.Fail("the call is not a statement of its own")
    if count == 0:
        raise normalize.Fail("never called")
    par = _parents(body)
    ds = par[v["id"]]
    par[ds["id"]]["ch"] = [c for c in par[ds["id"]]["ch"] if c is not ds]


def inline_local_lambdas(tu, fn):
    """`const auto step = [this, &lock] { ... };  ...  step();  ...  step();` - a lambda that is bound to a local, captures by
    reference only and is used for nothing but calls in statement position (the init / increment slot of a for loop included)
    is expanded at its calls: early returns become if/else, its locals get fresh ids, its declaration goes away.  That is a
    behaviour-preserving rewrite of fn (same operations in the same order on the same objects), after which the lock flow and
    the path searches see the statements where they are executed.  Returns the dids of the lambdas expanded this way (they are
    judged through fn from then on).  Whatever does not fit leaves fn as it is."""
    gone = set()
    if fn.body is None or fn.kind == "lambda" or not fn.cfg:
        return gone
    body = fn.body
    tried = set()
    rw = normalize.Rewriter(tu, fn)
    dids = [y.get("did") for y in fn.nodes() if y["k"] == "VarDecl"] + [y["ref"]["id"] for y in fn.nodes() if y["k"] == "DeclRefExpr"]
    rw.next_did = min([d for d in dids if isinstance(d, int)] + [0]) - 1
    for _ in range(8):
        found = False
        for v in ir.walk(body):
            if v["k"] != "VarDecl" or v.get("did") is None or v["did"] in tried or not kids(v):
                continue
            lam = _lambda_of(kids(v)[0])
            lf = tu.by_did.get(lam.get("fn")) if lam is not None else None
            if lf is None or lf.body is None or lf.body["k"] != "CompoundStmt":
                continue
            tried.add(v["did"])
            trial = copy.deepcopy(body)
            tv = [y for y in ir.walk(trial) if y["k"] == "VarDecl" and y.get("did") == v["did"]][0]
            try:
                _expand_lambda(tu, fn, rw, trial, tv, _lambda_of(kids(tv)[0]), lf)
                cfgbuild.build(trial)
            except (normalize.Fail, cfgbuild.Unsupported, KeyError, IndexError, TypeError):
                continue
            body = trial
            gone.add(lf.did)
            found = True
            break
        if not found:
            break
    if not gone:
        return gone
    try:
        cfg = cfgbuild.build(body)
        for _ in range(4):
            if not rw.substitute_locals(body, cfg):
                break
            cfg = cfgbuild.build(body)
    except (cfgbuild.Unsupported, normalize.Fail, KeyError, IndexError, TypeError):
        return set()
    fn.body = body
    fn.cfg = cfg
    fn.d = dict(fn.d)
    fn.d["body"], fn.d["cfg"] = body, cfg
    fn._byid = None
    fn._parent = None
    fn.normalized = True
    return gone


# ------------------------------------------------------------------------------------------------ new member helpers with a try block
def _helper_call_site(body, cal):
    """(call, top, q): the first call of cal in body, the statement `top` it forms and the parent q of that statement"""
    par = _parents(body)
    for y in ir.walk(body):
        if "callee" in y and y["callee"].get("did") == cal.did:
            if y["k"] != "CXXMemberCallExpr" or not y.get("member_call"):
                raise normalize.Fail("call form")
            top, q = y, par.get(y["id"])
            while q is not None and q["k"] == "ExprWithCleanups":
                top, q = q, par.get(q["id"])
            if q is None or not any(x is top for x in kids(q)):
                raise normalize.Fail("call position")
            return y, top, q
    return None


def inline_try_helpers(tu, fns):
    """`void ThreadPool::run_front_job(std::unique_lock<std::mutex>& lock) { Job job = ...; lock.unlock(); try { job(); } catch ... }`
    called as a statement `run_front_job(lock);` - a member function of the pool that did not exist in the tree the rules were
    written against (data/known.json) and that engine/normalize.py left alone because it contains a try block.  Its calls on
    *this in statement position are expanded in place: reference parameters name the caller's objects (a guard passed by reference
    is the caller's guard), value parameters become fresh locals, the helper's locals get fresh ids, early returns become if/else
    (a return inside a try block or a loop is not rewritten: nothing is expanded then), and the expansion is ONE compound
    statement, so the helper's locals are destroyed where the helper returned.  A try block keeps its meaning: what leaves the
    helper by an exception leaves the statement at the call the same way.  Same operations in the same order on the same objects;
    the lock flow, the path searches and the job-lifetime rule then see them where they are executed.  A helper all of whose
    uses are expanded is judged through its callers only and leaves the list of members; a helper that is also used in another
    way (in an expression, through a pointer to member, from a lambda, recursively, with a lambda / goto / static local inside,
    or with a namesake that could override it) stays a function of its own (the rules then decide it or give up as before).
    Returns the members to analyse."""
    kn = normalize.known()
    if not kn:
        return fns
    fns = list(fns)
    helpers = [f for f in fns if f.qname not in kn["functions"] and f.kind not in ("ctor", "dtor", "lambda") and f.body is not None
               and f.body["k"] == "CompoundStmt" and f.cfg]
    for cal in helpers:
        if any(y["k"] in ("GotoStmt", "LabelStmt", "IndirectGotoStmt", "LambdaExpr") or (y["k"] == "VarDecl" and y.get("static")) for y in ir.walk(cal.body)):
            continue
        if not any(y["k"] == "CXXTryStmt" for y in ir.walk(cal.body)):
            continue          # (the others were expanded by engine/normalize.py, or it had a reason not to)
        if any(f2.name == cal.name and f2.did != cal.did for f2 in tu.functions):
            continue          # a namesake: an overload or an overrider in another class
        if any("callee" in y and y["callee"].get("did") == cal.did for y in ir.walk(cal.body)):
            continue          # recursive
        users = [f for f in tu.functions if f is not cal and any(("callee" in y and y["callee"].get("did") == cal.did) or
                                                                 (y["k"] == "DeclRefExpr" and y["ref"]["id"] == cal.did) for y in f.nodes())]
        if not users or any(f.kind == "lambda" or f.body is None or not f.cfg or not any(f is m for m in fns) for f in users):
            continue
        done = []
        try:
            for fn in users:
                rw = normalize.Rewriter(tu, fn)
                dids = [y.get("did") for y in fn.nodes() if y["k"] == "VarDecl"] + [y["ref"]["id"] for y in fn.nodes() if y["k"] == "DeclRefExpr"] + \
                    [y.get("did") for y in cal.nodes() if y["k"] == "VarDecl"]
                rw.next_did = min([d for d in dids if isinstance(d, int)] + [0]) - 1
                body = copy.deepcopy(fn.body)
                for count in range(17):
                    site = _helper_call_site(body, cal)
                    if site is None:
                        break
                    if count == 16:
                        raise normalize.Fail("too many calls")
                    call, top, q = site
                    ch = kids(q)
                    if not (q["k"] == "CompoundStmt" or (q["k"] == "IfStmt" and top is not ch[0]) or (q["k"] == "WhileStmt" and top is ch[1]) or
                            (q["k"] == "ForStmt" and len(ch) == 4 and top is ch[3]) or (q["k"] == "DoStmt" and top is ch[0])):
                        raise normalize.Fail("the call is not a statement of its own")
                    pro, subst, rename = rw.bind(cal, call)
                    stmts = [rw.simplify(rw.clone(x, subst, rename)) for x in kids(cal.body)]
                    stmts = rw.deret(stmts, lambda e: ([e] if e is not None and not rw.side_effect_free(e) else []))
                    _replace_child(q, top, {"k": "CompoundStmt", "id": rw.fresh(), "l": call.get("l"), "ch": pro + stmts})
                if any(y["k"] == "DeclRefExpr" and y["ref"]["id"] == cal.did for y in ir.walk(body)):
                    raise normalize.Fail("the helper is named without being called")
                done.append((fn, body, cfgbuild.build(body)))
        except (normalize.Fail, cfgbuild.Unsupported, KeyError, IndexError, TypeError):
            continue
        for fn, body, cfg in done:
            fn.body, fn.cfg = body, cfg
            fn.d = dict(fn.d)
            fn.d["body"], fn.d["cfg"] = body, cfg
            fn._byid = None
            fn._parent = None
            fn.normalized = True
        fns = [f for f in fns if f is not cal]
        tu.functions = [f for f in tu.functions if f is not cal]
    return fns


# ------------------------------------------------------------------------------------------------ reference aliases of data members
NOOP_CASTS = ("ImplicitCastExpr", "CStyleCastExpr", "CXXStaticCastExpr", "CXXFunctionalCastExpr", "CXXConstCastExpr")


def _bare_ty(t):
    t = (t or "").replace("const ", "").replace(" const", "").strip()
    return t.rstrip("&").strip().replace(" ", "")


def _alias_target(v):
    """the expression this->f that the local lvalue reference v is bound to directly (`const std::atomic<bool>& stop = terminate_;`),
    else None.  Only qualification conversions are looked through: a reference that binds to a temporary (a converted value), to a
    base sub-object or to an element is not an alias of the member"""
    ty = (v.get("ty") or "").rstrip()
    if v["k"] != "VarDecl" or v.get("did") is None or v.get("static") or not ty.endswith("&") or ty.endswith("&&") or not kids(v):
        return None
    e = kids(v)[0]
    while e is not None and kids(e) and (e["k"] == "ParenExpr" or (e["k"] in NOOP_CASTS and e.get("cast") == "NoOp")):
        e = kids(e)[0]
    if e is None or e["k"] != "MemberExpr" or not e.get("lv") or not match.this_field(e):
        return None
    if _bare_ty(ty) != _bare_ty(e.get("ty")):
        return None
    return e


def _resolve_aliases_once(tu, fn):
    targets = {}
    for v in ir.walk(fn.body):
        if v["k"] == "VarDecl":
            t = _alias_target(v)
            if t is not None:
                targets[v["did"]] = t
    if not targets:
        return 0
    lams = lambdas_in(tu, fn)
    lam_by_did = {lf.did: (lx, lf) for lx, lf in lams if lf is not None}
    # every mention outside fn must sit in a lambda of fn that captures the reference BY REFERENCE (a copy capture of a
    # reference variable copies the object it names: that is a snapshot, not an alias)
    for did in list(targets):
        ok = True
        for lx, lf in lams:
            for c in (lx.get("captures") or []):
                if c.get("id") == did and (not c.get("byref") or lf is None or lf.body is None):
                    ok = False
        for f2 in tu.functions:
            if f2 is fn or not ok:
                continue
            if any(y["k"] == "DeclRefExpr" and y["ref"]["id"] == did for y in f2.nodes()):
                if f2.did not in lam_by_did or not any(c.get("id") == did and c.get("byref") for c in (lam_by_did[f2.did][0].get("captures") or [])):
                    ok = False
        if not ok:
            del targets[did]
    if not targets:
        return 0
    rw = normalize.Rewriter(tu, fn)
    body = copy.deepcopy(fn.body)
    par = _parents(body)
    decl = {}
    for v in ir.walk(body):
        if v["k"] == "VarDecl" and v.get("did") in targets:
            ds = par.get(v["id"])
            if ds is None or ds["k"] != "DeclStmt" or par.get(ds["id"]) is None or par[ds["id"]]["k"] != "CompoundStmt":
                del targets[v["did"]]         # declared in the head of an if / a loop: left as it is
            else:
                decl[v["did"]] = (v, ds)
    if not targets:
        return 0
    count = [0]

    def subst(n):
        if n is None:
            return None
        if n["k"] == "DeclRefExpr" and n["ref"]["id"] in targets:
            count[0] += 1
            m = rw.clone(targets[n["ref"]["id"]])
            for y in ir.walk(m):                 # reports name the line of the use
                if n.get("l") is not None:
                    y["l"] = n["l"]
            return m
        if n["k"] == "LambdaExpr" and n.get("captures"):
            n["captures"] = [c for c in n["captures"] if c.get("id") not in targets]
        for key in ("init", "condvar"):
            if key in n and isinstance(n[key], dict):
                n[key] = subst(n[key])
        if "ch" in n:
            n["ch"] = [subst(c) for c in n["ch"]]
        return n
    # the declarations go away first (their initialisers are the targets themselves)
    for did, (v, ds) in decl.items():
        ds["ch"] = [c for c in ds["ch"] if c is not v]
        if not ds["ch"]:
            comp = par[ds["id"]]
            comp["ch"] = [c for c in comp["ch"] if c is not ds]
    subst(body)
    lam_new = []
    for lx, lf in lams:
        if lf is None or lf.body is None:
            continue
        if not any((y["k"] == "DeclRefExpr" and y["ref"]["id"] in targets) or
                   (y["k"] == "LambdaExpr" and any(c.get("id") in targets for c in (y.get("captures") or []))) for y in ir.walk(lf.body)):
            continue
        lb = subst(copy.deepcopy(lf.body))
        lam_new.append((lf, lb, cfgbuild.build(lb) if lf.cfg else lf.cfg))
    cfg = cfgbuild.build(body)
    for f, b, c in [(fn, body, cfg)] + lam_new:
        f.body, f.cfg = b, c
        f.d = dict(f.d)
        f.d["body"], f.d["cfg"] = b, c
        f._byid = None
        f._parent = None
        f.normalized = True
    return len(targets)


def resolve_member_aliases(tu, fn):
    """`const std::deque<Job>& pending = jobs_;  const std::atomic<size_t>& running = busy_;  ...  [&pending, &running] { return
    pending.empty() && running == 0; }` - a local lvalue reference that is bound directly to a data member of *this names that
    member wherever it is mentioned: a reference cannot be re-seated and `this` does not change, and a by-reference capture of a
    reference refers to the object it is bound to.  Every mention of such a local, in fn and in the lambdas of fn that capture it
    by reference, is replaced by this->member and the declaration (which accesses nothing) is dropped: the rules then see the
    operations on the member where they are executed.  Aliases of aliases are resolved in further rounds.  Whatever does not fit
    (a copy capture, a static reference, a declaration in the head of a statement, a CFG that cannot be rebuilt) leaves fn as it
    is.  Returns the number of aliases resolved."""
    if fn.body is None or fn.kind == "lambda" or not fn.cfg:
        return 0
    total = 0
    for _ in range(4):
        try:
            n = _resolve_aliases_once(tu, fn)
        except (normalize.Fail, cfgbuild.Unsupported, KeyError, IndexError, TypeError):
            n = 0
        if not n:
            break
        total += n
    return total


# ------------------------------------------------------------------------------------------------ local lambdas that classify the state
COMPARE = ("==", "!=")


def _pure_member_read(e):
    """e evaluates nothing but reads of data members of *this (const member functions of a closed list, conversions), constants,
    ! && || ?: and comparisons: evaluating it where it is called is the same as evaluating it inside the lambda"""
    for y in ir.walk(e):
        k = y["k"]
        if k in ("This", "IntegerLiteral", "CXXBoolLiteralExpr", "ConditionalOperator", "ParenExpr", "ImplicitCastExpr", "CXXStaticCastExpr",
                 "CStyleCastExpr", "CXXFunctionalCastExpr") or (k == "DefaultArg" and not kids(y)):
            continue
        if k == "MemberExpr" and match.this_field(y):
            continue
        if k == "DeclRefExpr" and y["ref"].get("kind") == "enumconst" and "cval" in y:
            continue
        if k == "UnaryOperator" and y.get("op") == "!":
            continue
        if k == "BinaryOperator" and y.get("op") in ("&&", "||", "==", "!=", "<", ">", "<=", ">="):
            continue
        if k == "CXXMemberCallExpr" and "callee" in y and y.get("member_call") and y["callee"].get("const") and kids(y) and \
                match.this_field(kids(y)[0]) and all(a is not None and a["k"] == "DefaultArg" for a in kids(y)[1:]) and \
                (y["callee"]["name"] in ("empty", "size", "load") or y["callee"]["name"].startswith("operator ")):
            continue
        return False
    return True


def _enum_leaves(e):
    """the constants at the leaves of a tree of ?: , None if a leaf is something else"""
    while e is not None and e["k"] == "ParenExpr" and kids(e):
        e = kids(e)[0]
    if e is None:
        return None
    if e["k"] == "ConditionalOperator" and len(kids(e)) == 3:
        a, b = _enum_leaves(kids(e)[1]), _enum_leaves(kids(e)[2])
        return None if a is None or b is None else a + b
    if e["k"] == "DeclRefExpr" and e["ref"].get("kind") == "enumconst" and "cval" in e:
        return [e]
    return None


def _classifier_once(tu, fn, tried):
    """expands one local lambda of fn that classifies the state into an enumeration (see inline_classifier_lambdas); returns the did of
    the lambda function, None if there is none (left)"""
    for v in ir.walk(fn.body):
        if v["k"] != "VarDecl" or v.get("did") is None or v["did"] in tried or not kids(v) or v.get("static"):
            continue
        lam = _lambda_of(kids(v)[0])
        lf = tu.by_did.get(lam.get("fn")) if lam is not None else None
        if lf is None or lf.body is None or lf.body["k"] != "CompoundStmt" or lf.params:
            continue
        tried.add(v["did"])
        if (v.get("ty") or "").rstrip().endswith("&") or any(not c.get("byref") for c in (lam.get("captures") or [])):
            continue          # a copy capture is a snapshot taken where the lambda is created
        if any(y["k"] not in ("CompoundStmt", "IfStmt", "ReturnStmt") for y in ir.walk(lf.body) if y["k"].endswith("Stmt")) or \
                any(y["k"] == "VarDecl" or "init" in y or "condvar" in y for y in ir.walk(lf.body)):
            continue
        value = dtable.stmts_as_expr(kids(lf.body))
        if value is None or not _pure_member_read(value) or _enum_leaves(value) is None:
            continue
        did = v["did"]
        lams = lambdas_in(tu, fn)
        lam_by_did = {f2.did: (lx, f2) for lx, f2 in lams if f2 is not None}
        # every mention: in fn, or in a lambda of fn that captures the classifier by reference
        ok = True
        users = []
        for f2 in tu.functions:
            if f2 is fn or f2.body is None or not any(y["k"] == "DeclRefExpr" and y["ref"]["id"] == did for y in f2.nodes()):
                continue
            if f2.did == lf.did or f2.did not in lam_by_did or not any(c.get("id") == did and c.get("byref") for c in (lam_by_did[f2.did][0].get("captures") or [])):
                ok = False
            users.append(f2)
        if any(c.get("id") == did and (not c.get("byref") or f2 is None) for lx, f2 in lams for c in (lx.get("captures") or [])):
            ok = False
        if not ok:
            continue
        rw = normalize.Rewriter(tu, fn)
        rw.next_id = max([rw.next_id] + [y.get("id", 0) for f2 in users for y in f2.nodes()]) + 1000

        def tree(e, line, leaf):
            while e is not None and e["k"] == "ParenExpr" and kids(e):
                e = kids(e)[0]
            if e["k"] == "ConditionalOperator":
                c = rw.clone(kids(e)[0])
                for y in ir.walk(c):
                    y["l"] = line
                a, b = tree(kids(e)[1], line, leaf), tree(kids(e)[2], line, leaf)
                return {"k": "ConditionalOperator", "id": rw.fresh(), "ty": a.get("ty"), "l": line, "ch": [c, a, b]}
            return leaf(e, line)

        def rewrite(root):
            """root with every call of the classifier replaced; normalize.Fail if a mention of it is of another form"""
            par = _parents(root)
            todo = []
            for y in ir.walk(root):
                if y["k"] == "LambdaExpr" and y.get("fn") == lf.did:
                    continue
                if y["k"] != "DeclRefExpr" or y["ref"]["id"] != did:
                    continue
                c0, call = y, par.get(y["id"])
                while call is not None and call["k"] in NOOP_CASTS + ("ParenExpr",) and call.get("cast") in (None, "NoOp"):
                    c0, call = call, par.get(call["id"])
                if call is None or not is_invoke(call) or kids(call)[0] is not c0 or len(kids(call)) != 1 or call["callee"].get("did") != lf.did:
                    raise normalize.Fail("the classifier is used for something else than a call without arguments")
                c, p = call, par.get(call["id"])
                while p is not None and (p["k"] == "ParenExpr" or (p["k"] in NOOP_CASTS and p.get("cast") in ("NoOp", "LValueToRValue", "IntegralCast"))):
                    c, p = p, par.get(p["id"])
                if p is None:
                    raise normalize.Fail("call position")
                line = call.get("l")
                b = (p.get("op"), kids(p)[0], kids(p)[1]) if p["k"] == "BinaryOperator" and p.get("op") in COMPARE and len(kids(p)) == 2 else None
                if b is not None:
                    other = b[2] if b[1] is c else b[1]
                    k = const_int(other)
                    if k is None or (other is c):
                        raise normalize.Fail("compared with something that is not a constant")
                    new = tree(value, line, lambda e, l: {"k": "CXXBoolLiteralExpr", "id": rw.fresh(), "ty": "bool", "l": l,
                                                          "val": (const_int(e) == k) == (b[0] == "==")})
                    todo.append((p, new))
                elif p["k"] == "SwitchStmt" and kids(p) and kids(p)[0] is c and "init" not in p and "condvar" not in p:
                    new = tree(value, line, lambda e, l: dict(rw.clone(e), l=l))
                    todo.append((c, new))
                else:
                    raise normalize.Fail("the value of the classifier is used in a way that is not understood")
            for old, new in todo:
                q = par.get(old["id"])
                if q is None:
                    raise normalize.Fail("position")
                done = False
                for key in ("init", "condvar"):
                    if q.get(key) is old:
                        q[key] = new
                        done = True
                if not done:
                    _replace_child(q, old, new)
            return len(todo)
        try:
            body = copy.deepcopy(fn.body)
            count = rewrite(body)
            new_lams = []
            for f2 in users:
                lb = copy.deepcopy(f2.body)
                count += rewrite(lb)
                new_lams.append((f2, lb, cfgbuild.build(lb) if f2.cfg else f2.cfg))
            if not count:
                continue
            # the declaration goes away; the lambdas that captured the classifier now name the members through `this`
            par = _parents(body)
            tv = [y for y in ir.walk(body) if y["k"] == "VarDecl" and y.get("did") == did][0]
            ds = par.get(tv["id"])
            if ds is None or ds["k"] != "DeclStmt" or len(kids(ds)) != 1 or par.get(ds["id"]) is None or par[ds["id"]]["k"] != "CompoundStmt":
                continue
            par[ds["id"]]["ch"] = [c for c in par[ds["id"]]["ch"] if c is not ds]
            for root in [body] + [lb for f2, lb, c in new_lams]:
                for y in ir.walk(root):
                    if y["k"] == "LambdaExpr" and any(c.get("id") == did for c in (y.get("captures") or [])):
                        y["captures"] = [c for c in y["captures"] if c.get("id") != did]
                        if not any(c.get("name") == "this" for c in y["captures"]):
                            y["captures"].append({"byref": True, "name": "this"})
            cfg = cfgbuild.build(body)
        except (normalize.Fail, cfgbuild.Unsupported, KeyError, IndexError, TypeError):
            continue
        for f, b, c in [(fn, body, cfg)] + new_lams:
            f.body, f.cfg = b, c
            f.d = dict(f.d)
            f.d["body"], f.d["cfg"] = b, c
            f._byid = None
            f._parent = None
            f.normalized = True
        return lf.did
    return None


def inline_classifier_lambdas(tu, fn):
    """`enum class Next { kStop, kRun, kSleep };  const auto next_step = [this]() -> Next { if (terminate_) return Next::kStop; return
    jobs_.empty() ? Next::kSleep : Next::kRun; };  ...  if (next_step() == Next::kSleep) ...  [&next_step] { return next_step() !=
    Next::kSleep; }  ...  switch (next_step())` - a local lambda without parameters that captures by reference only, whose body is
    (if (c) return K;)* return e; over enumerators and whose conditions only read data members of *this names a value that is
    computed where it is called.  Every call of it, in fn and in the lambdas of fn that capture it by reference, is replaced by
    that value: `next_step() == K` by the tree of ?: with true / false at the leaves (the comparison evaluated per enumerator),
    the selector of a switch by the tree of ?: over the enumerators.  The same member reads happen in the same order at the same
    places, so the rules judge the same behaviour - and see the tests of the queue / the flags where they are executed.  Any
    other use of the lambda or of its value leaves everything as it is.  Returns the dids of the lambdas expanded this way."""
    gone = set()
    if fn.body is None or fn.kind == "lambda" or not fn.cfg:
        return gone
    tried = set()
    for _ in range(4):
        try:
            d = _classifier_once(tu, fn, tried)
        except (normalize.Fail, cfgbuild.Unsupported, KeyError, IndexError, TypeError):
            d = None
        if d is None:
            break
        gone.add(d)
    return gone


# ------------------------------------------------------------------------------------------------ uses of the data members
def field_uses(fn):
    """every mention of a data member of *this in fn, classified by what is done to it:
    [(field, kind, node, info)] with kind
      read     value / const member / iterator access
      push     container grows            pop      container shrinks (pop_*, clear, erase)
      delta    info = (sign, amount|None)  (++ -- += -= fetch_add fetch_sub f = f +- e)
      set      info = assigned expression (= store exchange)
      sync     wait / notify / lock / join on a synchronisation member
      unknown  anything else: bound to a reference, passed to a function, address taken, unknown member function"""
    out = []
    for m in fn.nodes():
        if m["k"] != "MemberExpr":
            continue
        f = match.this_field(m)
        if not f:
            continue
        p, c, casts = up(fn, m)
        kind, node, info = "unknown", m, None
        if p is not None and "callee" in p and is_first(p, c) and (p.get("member_call") or p["k"] == "CXXOperatorCallExpr"):
            name = p["callee"]["name"]
            args = kids(p)[1:]
            node = p
            if name in PUSH:
                kind = "push"
            elif name in POP:
                kind = "pop"
            elif name in ("operator++", "operator--"):
                kind, info = "delta", ("+" if name == "operator++" else "-", 1)
            elif name in ("fetch_add", "fetch_sub", "operator+=", "operator-="):
                kind, info = "delta", ("+" if name in ("fetch_add", "operator+=") else "-", const_int(args[0]) if args else None)
            elif name in ("operator=", "store", "exchange"):
                kind, info = "set", (args[0] if args else None)
                d = match.field_delta(p, f)
                if d:
                    kind, info = "delta", (d[0], 1 if d[1] == 1 else const_int(d[1]))
            elif name in WAITS or name in ("notify_one", "notify_all", "lock", "unlock", "try_lock", "join", "joinable"):
                kind = "sync"
            elif p["callee"].get("const") or name in CONTAINER_READ or name == "load" or name.startswith("operator "):
                kind = "read"
        elif p is not None and p["k"] == "UnaryOperator" and p.get("op") in ("++", "--"):
            kind, node, info = "delta", p, ("+" if p["op"] == "++" else "-", 1)
        elif p is not None and p["k"] == "CompoundAssignOperator" and is_first(p, c):
            node = p
            if p.get("op") in ("+=", "-="):
                kind, info = "delta", (p["op"][0], const_int(kids(p)[1]))
        elif p is not None and p["k"] == "BinaryOperator" and p.get("op") == "=" and is_first(p, c):
            kind, node, info = "set", p, kids(p)[1]
            d = match.field_delta(p, f)
            if d:
                kind, info = "delta", (d[0], 1 if d[1] == 1 else const_int(d[1]))
        elif "LValueToRValue" in casts:
            kind = "read"
        out.append((f, kind, node, info))
    return out


def is_bool_field(m):
    return "bool" in (strip_casts(m).get("ty") or "")


def effects_of(f, kind, node, info):
    """atom -> truth the operation gives it ('true' | 'false' | 'unknown'); atoms are named as in the wait predicates:
    container `f.empty`, counter `f==0`, flag `f`"""
    if kind == "push":
        return {f + ".empty": "false"}
    if kind == "pop":
        return {f + ".empty": "true"}
    if kind == "delta":
        sign, amount = info
        if amount is None or amount <= 0:
            return {f + "==0": "unknown"}
        return {f + "==0": "false" if sign == "+" else "true"}
    if kind == "set":
        v = const_int(info) if info is not None else None
        if v is None:
            return {f: "unknown", f + "==0": "unknown", f + ".empty": "unknown"}
        return {f: "true" if v else "false", f + "==0": "true" if v == 0 else "false"}
    if kind == "unknown":
        return {f: "unknown", f + "==0": "unknown", f + ".empty": "unknown"}
    return {}


# ------------------------------------------------------------------------------------------------ lock state
def is_guard_ty(ty):
    t = (ty or "").replace("const ", "").strip()
    return any(t.startswith(p) for p in sync.GUARDS)


class Locks:
    """lock state of mutex_ in the members of the pool.  A member that is called from another member is analysed with the
    lock state of its call sites at entry (and, unless it receives the guard, also as an entry point of its own); a query
    whose answer differs between these is undecidable.  A function that uses the mutex or a guard in a way the flow does
    not model gives no answer at all."""

    def __init__(self, tu, fns):
        self.tu, self.fns = tu, fns
        self.by_did = {f.did: f for f in fns}
        self.gparams = set(p["did"] for f in fns for p in f.params if is_guard_ty(p.get("ty")))
        self.base = {}
        for f in fns:
            if f.cfg:
                self.base[f.did] = sync.LockFlow(f, self.mutex)
        self.sites = {}
        for f in fns:
            for x in f.nodes():
                if "callee" in x and x["callee"].get("did") in self.by_did and x["callee"]["did"] != f.did:
                    self.sites.setdefault(x["callee"]["did"], []).append((f, x))
        self._variants = {}
        self._unknown = {}
        self._busy = set()

    def mutex(self, e):
        return match.this_field(e) == MUTEX or ref_of(e) in self.gparams

    def g(self, fn):
        if fn.did not in self.base:
            undecided(fn, None, "no control-flow graph for %s" % fn.qname)
        return self.base[fn.did].g

    def guards(self, fn):
        return set(self.base[fn.did].guards) | set(p["did"] for p in fn.params if is_guard_ty(p.get("ty")))

    def callers(self, fn):
        return self.sites.get(fn.did, [])

    def unknown_use(self, fn):
        """(node, what) of the first use of mutex_ / of a guard in fn that the lock flow does not model, else None"""
        if fn.did in self._unknown:
            return self._unknown[fn.did]
        base = self.base[fn.did]
        gd = self.guards(fn)
        bad = None
        for x in fn.nodes():
            if bad:
                break
            if x["k"] == "VarDecl" and is_guard_ty(x.get("ty")):
                if x["did"] not in base.guards:
                    if any((y["k"] == "MemberExpr" and match.this_field(y) == MUTEX) or (y["k"] == "DeclRefExpr" and y["ref"]["id"] in gd) for y in ir.walk(x)):
                        bad = (x, "construction of the guard `%s` not understood" % x.get("name"))
                else:
                    ctor = strip_casts(kids(x)[0])
                    for a in kids(ctor)[1:]:
                        ty = (a.get("ty") or "") if a is not None else ""
                        if "defer_lock" not in ty and "adopt_lock" not in ty:
                            bad = (x, "guard `%s` constructed with an argument that is not understood (%s)" % (x.get("name"), dtable.describe(a)[:40]))
                continue
            is_m = x["k"] == "MemberExpr" and match.this_field(x) == MUTEX
            is_g = x["k"] == "DeclRefExpr" and x["ref"]["id"] in gd
            if not (is_m or is_g):
                continue
            p, c, _ = up(fn, x)
            ok = False
            if p is not None and "callee" in p:
                name = p["callee"]["name"]
                rec = p["callee"].get("record") or ""
                if p.get("member_call") and is_first(p, c) and name in ("lock", "unlock", "try_lock"):
                    ok = True
                elif is_g and p.get("member_call") and is_first(p, c) and (name in ("owns_lock", "operator bool") or p["callee"].get("const")):
                    ok = True
                elif is_g and p.get("member_call") and not is_first(p, c) and name in WAITS and "condition_variable" in rec:
                    ok = True
                elif is_m and p["k"] in ("CXXConstructExpr", "CXXTemporaryObjectExpr"):
                    v, _c, _x = up(fn, p)
                    ok = v is not None and v["k"] == "VarDecl" and v.get("did") in base.guards
            if not ok:
                bad = (x, "`%s` is used in a way the lock flow does not model (%s)"
                       % (MUTEX if is_m else x["ref"]["name"], dtable.describe(p)[:50] if p is not None and p["k"] not in ("CompoundStmt", "DeclStmt") else "escapes"))
        if not bad:
            # a lambda that captures a guard or names the mutex may lock / unlock wherever it runs
            for lx, lf in lambdas_in(self.tu, fn):
                if any(c.get("id") in gd for c in (lx.get("captures") or [])):
                    bad = (lx, "a guard is captured by a lambda: lock operations inside it are not followed")
                elif lf is None:
                    bad = (lx, "body of a lambda not in the IR")
                elif any((y["k"] == "MemberExpr" and match.this_field(y) == MUTEX) or (y["k"] == "DeclRefExpr" and y["ref"]["id"] in gd) for y in lf.nodes()):
                    bad = (lx, "%s / a guard is used inside a lambda: lock operations there are not followed" % MUTEX)
                if bad:
                    break
        self._unknown[fn.did] = bad
        return bad

    def variants(self, fn):
        if fn.did in self._variants:
            return self._variants[fn.did]
        if fn.did not in self.base:
            undecided(fn, None, "no control-flow graph for %s" % fn.qname)
        if fn.did in self._busy:
            undecided(fn, None, "%s is called recursively: lock state at its entry not derived" % fn.qname)
        self._busy.add(fn.did)
        try:
            entries = set()
            for cf, call in self.callers(fn):
                s = self.held(cf, call)
                entries |= {True, False} if s is None else {s}
            if not entries or not any(is_guard_ty(p.get("ty")) for p in fn.params):
                entries.add(False)          # an entry point of its own (public member, thread main function)
            out = [self.base[fn.did] if e is False else sync.LockFlow(fn, self.mutex, entry_held=e) for e in sorted(entries)]
        finally:
            self._busy.discard(fn.did)
        self._variants[fn.did] = out
        return out

    def held(self, fn, node=None, pos=None):
        """True / False / None (held on some paths only) just before node (or CFG position pos) of fn"""
        if fn.did not in self.base:
            undecided(fn, node, "no control-flow graph for %s" % fn.qname)
        bad = self.unknown_use(fn)
        if bad:
            undecided(fn, bad[0], bad[1])
        res = set()
        for fl in self.variants(fn):
            r = fl.held_at(node) if node is not None else fl.held_at_pos(pos)
            if r == "?":
                undecided(fn, node, "lock state not computed here (code the CFG does not reach or does not list)")
            res.add(r)
        if len(res) == 1:
            r = res.pop()
            if r is None and flag_branch(fn):
                # `held on some paths only` joins paths that a control-flow flag may make exclusive
                undecided(fn, node, "lock state differs between paths and " + flag_branch(fn))
            return r
        cf, call = self.callers(fn)[0]
        undecided(fn, node, "lock state depends on how %s is entered: it is called from %s, whether it is also an entry point of its own is not known"
                  % (fn.qname, cf.qname))


def path_doubt(fn, g, path):
    """a CFG path is evidence only if its branches can be taken independently.  A branch on a local whose value is set by
    control flow (initialised with / assigned a constant) is not evaluated here: returns a description of such a branch on
    the path, else None"""
    if not path:
        return None
    flags = control_flags(fn)
    for b, s in zip(path, path[1:]):
        raw = [t for t in g.blocks[b].get("succ", []) if t is not None]
        els = g.elements(b)
        if len(set(raw)) < 2 or not els or not isinstance(els[-1], int):
            continue
        cond = fn.byid(els[-1])
        for y in ir.walk(cond):
            if y["k"] == "DeclRefExpr" and y["ref"]["id"] in flags:
                return "the witness path branches on the local `%s` (line %s), whose value is set by control flow" % (flags[y["ref"]["id"]], cond.get("l"))
            if "callee" in y:
                # the result of a lambda / of a member of the pool is computed by code that the path search does not evaluate
                cal = fn.tu.by_did.get(y["callee"].get("did")) if getattr(fn, "tu", None) is not None else None
                if cal is not None and cal.body is not None and (cal.kind == "lambda" or cal.record == TP):
                    return "the witness path branches on the result of %s (line %s), which is not evaluated" % (dtable.describe(y)[:30], cond.get("l"))
    return None


def control_flags(fn):
    flags = {}
    for x in fn.nodes():
        if x["k"] == "VarDecl" and x.get("did") is not None and kids(x) and kids(x)[0] is not None and const_int(kids(x)[0]) is not None:
            flags[x["did"]] = x.get("name")
        b = match.binop(x, ("=",))
        if b and ref_of(b[1]) is not None and const_int(b[2]) is not None:
            flags[ref_of(b[1])] = strip_casts(b[1])["ref"]["name"]
    return flags


def flag_branch(fn):
    """description of a branch of fn on a local whose value is set by control flow (a dataflow over all paths treats both
    of its edges as possible), else None"""
    flags = control_flags(fn)
    for x in fn.nodes():
        if x["k"] in ("IfStmt", "WhileStmt", "ForStmt", "DoStmt", "ConditionalOperator"):
            cond = kids(x)[1] if x["k"] in ("ForStmt", "DoStmt") and len(kids(x)) > 1 else (kids(x)[0] if kids(x) else None)
            for y in ir.walk(cond):
                if y["k"] == "DeclRefExpr" and y["ref"]["id"] in flags:
                    return "%s branches on the local `%s` (line %s), whose value is set by control flow" % (fn.name, flags[y["ref"]["id"]], x.get("l"))
    return None


# ------------------------------------------------------------------------------------------------ wait predicates
def field_of_atomic(e):
    """field name if e is (a load of) this->field, possibly through atomic conversion / load()"""
    e = strip_casts(e)
    if e is None:
        return None
    f = match.this_field(e)
    if f:
        return f
    if "callee" in e and e.get("member_call") and kids(e) and (e["callee"]["name"] == "load" or e["callee"]["name"].startswith("operator ")):
        return match.this_field(kids(e)[0])
    return None


def field_node(e):
    e = strip_casts(e)
    if e is not None and e["k"] != "MemberExpr" and kids(e):
        e = strip_casts(kids(e)[0])
    return e


def zero_test(n):
    """(operand, is_zero) if n compares an operand with a constant in a way that, for an unsigned operand, decides operand == 0:
    x == 0, 0 == x, x != 0, x > 0, 0 < x, x >= 1, x < 1, x <= 0, ..."""
    b = match.binop(n, ("==", "!=", "<", ">", "<=", ">="))
    if not b:
        return None
    op, l, r = b
    if const_int(l) is not None and const_int(r) is None:
        op = {"<": ">", ">": "<", "<=": ">=", ">=": "<=", "==": "==", "!=": "!="}[op]
        l, r = r, l
    c = const_int(r)
    if c is None or const_int(l) is not None:
        return None
    if op not in ("==", "!=") and "unsigned" not in (strip_casts(l).get("ty") or "") and "size_t" not in (strip_casts(l).get("ty") or ""):
        return None
    if (op, c) in (("==", 0), ("<=", 0), ("<", 1)):
        return l, True
    if (op, c) in (("!=", 0), (">", 0), (">=", 1)):
        return l, False
    return None


def size_of_field(e):
    e = strip_casts(e)
    if e is not None and "callee" in e and e.get("member_call") and e["callee"]["name"] in ("size", "length") and kids(e):
        return match.this_field(kids(e)[0])
    return None


def pred_atom(n, run=None):
    """canonical atom of a boolean leaf of a wait predicate: (`f.empty` | `f==0` | `f`, negated), else None"""
    s = strip_casts(n)
    if s is None:
        return None
    if "callee" in s and s.get("member_call") and s["callee"]["name"] == "empty" and kids(s) and match.this_field(kids(s)[0]):
        return (match.this_field(kids(s)[0]) + ".empty", False)
    z = zero_test(s)
    if z:
        if size_of_field(z[0]):
            return (size_of_field(z[0]) + ".empty", not z[1])
        f = field_of_atomic(z[0])
        if f and not is_bool_field(field_node(z[0])):
            return (f + "==0", not z[1])
        if (strip_casts(z[0]).get("ty") or "").replace("const ", "") == "bool":
            a = pred_atom(z[0])          # b == false, b != false
            if a:
                return (a[0], a[1] != z[1])
        return None
    if size_of_field(s):
        return (size_of_field(s) + ".empty", True)
    f = field_of_atomic(s)
    if f:
        if is_bool_field(field_node(s)):
            return (f, False)
        return (f + "==0", True)
    return None


def pred_expr(tu, wait):
    """(expression, negated, function it is evaluated in) of the predicate of a wait: the value of the predicate lambda, or the
    negated condition of the loop that re-checks around a bare wait"""
    lam = wait["pred"]
    if lam is None:
        return wait["loop_cond"], True, wait["fn"]
    lf = tu.by_did.get(lam.get("fn"))
    if lf is None:
        raise dtable.Undecidable("predicate lambda body not in IR")
    e = dtable.stmts_as_expr(kids(lf.body))
    if e is None:
        raise dtable.Undecidable("%s: body of the predicate lambda is not of the form decl* (if (c) return e;)* return e;" % lf.loc)
    return e, False, lf


def pred_info(tu, wait):
    """(canonical text, {atom: monotone direction}, function holding the predicate) of the predicate of a wait:
    a lambda (inline or named), or the negated condition of the loop that re-checks around a bare wait"""
    e, negate, lf = pred_expr(tu, wait)
    leaves = dtable.explore(e, pred_atom, lf, as_expr=True)
    atoms = sorted(dtable.atoms_of(leaves))
    rows = {}
    for v, l in dtable.table(leaves, None, atoms):
        rows[tuple(v[a] for a in atoms)] = (not l["result"]) if negate else l["result"]
    mono = {}
    for i, a in enumerate(atoms):
        up_ = down = False
        for key, val in rows.items():
            if not key[i]:
                k2 = key[:i] + (True,) + key[i + 1:]
                if rows[k2] and not val:
                    up_ = True
                if val and not rows[k2]:
                    down = True
        mono[a] = "up" if up_ and not down else "down" if down and not up_ else "both" if up_ and down else "none"
    # canonical text of the predicate: its truth table over the atoms it depends on, in sorted order (so that `wait(lock, pred)`,
    # `while (!pred) wait(lock)` and a predicate with its conjuncts in another order read the same)
    rel = [i for i, a in enumerate(atoms) if mono[a] != "none"]
    proj = {}
    for key, val in rows.items():
        proj[tuple(key[i] for i in rel)] = val
    text = "{" + ",".join(atoms[i] for i in rel) + ":" + "".join("1" if proj[k] else "0" for k in sorted(proj)) + "}"
    return text, dict((a, m) for a, m in mono.items() if m != "none"), lf


def recheck_loop_cond(fn, wnode):
    """condition of the innermost loop around a bare wait if leaving the loop means that the condition was false:
    (cond, None) | (None, why not)"""
    par = fn.parent(wnode)
    while par is not None and par["k"] not in ("WhileStmt", "DoStmt", "ForStmt", "CXXForRangeStmt"):
        par = fn.parent(par)
    if par is None:
        return None, "no loop"
    if par["k"] == "CXXForRangeStmt":
        return None, "range-for around the wait"
    init, cond, inc, body = match.loop_parts(par)
    if cond is None or const_int(cond) is not None:
        # for (;;) { if (c) break; ... wait ... }: the only way out of the loop is the break, taken when c has just been found true
        stmts = [s for s in (kids(body) if body is not None and body["k"] == "CompoundStmt" else [body]) if s is not None]
        exits = [y for s in stmts for y in ir.walk(s) if y["k"] in ("BreakStmt", "ReturnStmt", "GotoStmt", "ContinueStmt", "CXXThrowExpr")]
        nested = [y for s in stmts for y in ir.walk(s) if y["k"] in LOOPS + ("SwitchStmt", "LabelStmt", "CXXTryStmt")]

        def only_break(t):
            while t is not None and t["k"] == "CompoundStmt" and len([x for x in kids(t) if x is not None]) == 1:
                t = [x for x in kids(t) if x is not None][0]
            return t is not None and t["k"] == "BreakStmt"
        cands = [s for s in stmts if s["k"] == "IfStmt" and "init" not in s and "condvar" not in s and len(kids(s)) >= 2 and
                 (len(kids(s)) < 3 or kids(s)[2] is None) and kids(s)[0] is not None and only_break(kids(s)[1])]
        if (cond is None or const_int(cond) != 0) and len(cands) == 1 and len(exits) == 1 and not nested and par["k"] != "DoStmt":
            c = kids(cands[0])[0]
            return {"k": "UnaryOperator", "op": "!", "id": -12, "ty": "bool", "l": c.get("l"), "ch": [c]}, None
        return None, "the loop around the wait is left by other means than its condition"
    if any(y["k"] in ("BreakStmt", "ReturnStmt", "GotoStmt") for y in ir.walk(body)):
        return None, "the loop around the wait has more than one exit"
    return cond, None


# ------------------------------------------------------------------------------------------------ lambdas
def lambdas_in(tu, fn, seen=None):
    """[(LambdaExpr node, function of its body | None)] of the lambdas created in fn and, recursively, in those lambdas.  (A
    local lambda that is only called by name has been expanded into fn before and is not among them.)"""
    seen = seen if seen is not None else set()
    out = []
    for x in fn.nodes():
        if x["k"] == "LambdaExpr" and x.get("fn") not in seen:
            seen.add(x.get("fn"))
            lf = tu.by_did.get(x.get("fn"))
            out.append((x, lf))
            if lf is not None:
                out += lambdas_in(tu, lf, seen)
    return out


def lambda_site(fns, lam):
    for fn in fns:
        for x in fn.nodes():
            if x["k"] == "LambdaExpr" and x.get("fn") == lam.did:
                return fn, x
    return None, None


def lambda_evaluations(locks, fns, lam):
    """where the body of a lambda of a pool member is evaluated: ('pred', None) for a wait predicate, else
    ('at', [(fn, node)]) - the calls during which it runs on the calling thread.  Undecidable for every other use."""
    fn, x = lambda_site(fns, lam)
    if fn is None:
        undecided(lam, None, "the expression that creates this lambda was not found in a member of the pool")

    def use_of(node):
        p, c, _ = up(fn, node)
        while p is not None and p["k"] in ("CXXConstructExpr", "CXXTemporaryObjectExpr") and len(kids(p)) == 1:
            p, c, _ = up(fn, p)
        return p, c
    p, c = use_of(x)
    sites = []

    def classify(p, c, what):
        if p is not None and "callee" in p:
            name = p["callee"]["name"]
            if p.get("member_call") and name in WAITS and "condition_variable" in (p["callee"].get("record") or "") and not is_first(p, c):
                return "pred"
            if is_invoke(p) and is_first(p, c):
                sites.append((fn, p))
                return "at"
            if name in SYNC_ALGOS and (p["callee"].get("qname") or "").startswith("std::"):
                sites.append((fn, p))
                return "at"
        undecided(fn, x, "%s is used in a way that does not tell where it runs (%s)" % (what, dtable.describe(p)[:50] if p is not None else "?"))
    if p is not None and p["k"] == "VarDecl":
        var = p["did"]
        uses = [y for y in fn.nodes() if y["k"] == "DeclRefExpr" and y["ref"]["id"] == var]
        if not uses:
            undecided(fn, x, "the lambda `%s` is not used in %s itself" % (p.get("name"), fn.qname))
        kinds = set(classify(*use_of(u), what="the lambda `%s`" % p.get("name")) for u in uses)
        return ("pred", None) if kinds == {"pred"} else ("at", sites)
    k = classify(p, c, "the lambda")
    return ("pred", None) if k == "pred" else ("at", sites)


# ------------------------------------------------------------------------------------------------ TAKE-ATOMIC
ASSIGN_OPS = ("=", "+=", "-=", "*=", "/=", "%=", "|=", "&=", "^=", "<<=", ">>=")


def queue_tainted(locks, fn):
    """(dids, bindings): the locals / parameters of fn whose value may have been computed from the job queue, and whether a
    structured binding may have been.  Closed world, over-approximated: a local is tainted if its initialiser reads the queue
    (directly, through a member of the pool, through a tainted local or through a lambda that reads it), if it occurs on the
    left of an assignment (of any form: `x = ..`, `std::tie(x, y) = ..`, `s.f = ..`, `*p = ..`) or among the arguments of a
    call whose other operands read the queue, if it is captured by reference by a lambda that reads the queue, or if its
    address is taken / it is bound to a reference while the function reads the queue at all."""
    def is_local(y):
        return y["k"] == "DeclRefExpr" and y["ref"].get("kind") in ("local", "param")

    def reads_queue(y):
        if y["k"] == "MemberExpr" and match.this_field(y) == QUEUE:
            return True
        if "callee" in y and y["callee"].get("did") in locks.by_did and QUEUE in reach_fields(locks, locks.by_did[y["callee"]["did"]]):
            return True
        if y["k"] == "LambdaExpr":
            lf = fn.tu.by_did.get(y.get("fn")) if getattr(fn, "tu", None) is not None else None
            return lf is None or any(reads_queue(z) for z in lf.nodes())
        return False
    if not any(reads_queue(y) for y in fn.nodes()):
        return set(), False
    dids, bindings = set(), False

    def source(e):
        for y in ir.walk(e):
            if reads_queue(y) or (is_local(y) and y["ref"]["id"] in dids) or (bindings and y["k"] == "DeclRefExpr" and y["ref"].get("kind") == "binding"):
                return True
        return False
    # escapes: address taken, bound to a reference, captured by reference by a lambda that reads the queue
    for y in fn.nodes():
        if y["k"] == "UnaryOperator" and y.get("op") == "&" and kids(y):
            dids |= set(z["ref"]["id"] for z in ir.walk(kids(y)[0]) if is_local(z))
        if y["k"] == "VarDecl" and kids(y) and ((y.get("ty") or "").rstrip().endswith("&") or y.get("isref")):
            e = strip_casts(kids(y)[0])
            if e is not None and e.get("lv", True):
                dids |= set(z["ref"]["id"] for z in ir.walk(e) if is_local(z))
        if y["k"] == "LambdaExpr" and reads_queue(y):
            dids |= set(c["id"] for c in (y.get("captures") or []) if c.get("byref") and c.get("id") is not None)
    for _ in range(6):
        before = (len(dids), bindings)
        for y in fn.nodes():
            if y["k"] == "VarDecl" and kids(y) and kids(y)[0] is not None and source(kids(y)[0]):
                if y.get("name"):
                    dids.add(y.get("did"))
                else:
                    bindings = True          # the unnamed variable of `auto [a, b] = ...`
                continue
            b = match.binop(y, ASSIGN_OPS) if y["k"] in ("BinaryOperator", "CompoundAssignOperator", "CXXOperatorCallExpr") else None
            if b:
                if source(b[2]):
                    dids |= set(z["ref"]["id"] for z in ir.walk(b[1]) if is_local(z))
                continue
            if "callee" in y and not reads_queue(y) and y["callee"]["name"] not in CONTAINER_READ + ("load", "operator bool"):
                args = [a for a in kids(y) if a is not None]
                if any(source(a) for a in args):
                    for a in args:
                        if not source(a) or not any(reads_queue(z) for z in ir.walk(a)):
                            dids |= set(z["ref"]["id"] for z in ir.walk(a) if is_local(z) and a.get("lv"))
        if (len(dids), bindings) == before:
            break
    dids.discard(None)
    return dids, bindings


class QueueStates:
    """forward may-analysis over the CFG of fn: which valuations of (jobs_.empty(), monotone flags such as terminate_) are
    possible before every element.  The queue only changes under mutex_, so what a branch or the predicate of a wait has
    established about it stays true until the mutex is released, re-acquired or waited on (then the emptiness is
    forgotten); a flag that is only ever set to true may flip to true at any time.  Branch conditions and wait predicates
    are evaluated as truth tables over these atoms (any spelling, either branch, through && || ! ?:), every other atom is
    free.  A switch is followed label by label if its selector is made of constants, ?: and bool -> int conversions; any other
    multi-way terminator (another selector, try, range-for) leaves all its edges possible.  Whatever touches the queue in a way
    that is not classified - an operation, a test, a branch on a local that may have been computed from the queue (closed
    world, see queue_tainted) - is listed in `unknown`."""

    def __init__(self, tu, fn, g, locks, flags):
        self.fn, self.g, self.unknown = fn, g, []
        self.E = QUEUE + ".empty"
        self.keys = sorted(set(flags) | {self.E})
        self.flags = [k for k in self.keys if k != self.E]
        guards = locks.guards(fn)
        decl_guards = set(locks.base[fn.did].decl_at)
        ei = self.keys.index(self.E)
        top = frozenset(self._all())

        def with_e(v, e):
            return v[:ei] + (e,) + v[ei + 1:]

        def havoc(S):
            return frozenset(with_e(v, e) for v in S for e in (False, True))

        def close(S):
            out = set(S)
            for k in self.flags:
                i = self.keys.index(k)
                out |= set(v[:i] + (True,) + v[i + 1:] for v in out)
            return frozenset(out)

        taint = {}

        def tainted_in(e, in_fn):
            """a local / parameter / binding read by e whose value may be computed from the queue, else None"""
            if in_fn.did not in taint:
                taint[in_fn.did] = queue_tainted(locks, in_fn)
            dids, bindings = taint[in_fn.did]
            for y in ir.walk(e):
                if y["k"] == "DeclRefExpr" and ((y["ref"].get("kind") in ("local", "param") and y["ref"]["id"] in dids) or
                                                (bindings and y["ref"].get("kind") == "binding")):
                    return y
            return None

        def atomize(n, run):
            s = strip_casts(n)
            if s is None:
                return None
            a = pred_atom(s)
            if a is not None:
                return a
            k = s["k"]
            if (k == "UnaryOperator" and s.get("op") == "!") or (k == "BinaryOperator" and s.get("op") in ("&&", "||", ",")) or \
                    k in ("ConditionalOperator", "CXXBoolLiteralExpr") or const_int(s) is not None:
                return None
            if mentions(s, QUEUE) or any("callee" in y and y["callee"].get("did") in locks.by_did and
                                         QUEUE in reach_fields(locks, locks.by_did[y["callee"]["did"]]) for y in ir.walk(s)):
                self.unknown.append((s, "test of %s in a form that is not understood: %s" % (QUEUE, dtable.describe(s)[:50])))
            else:
                # a leaf that is free here must not depend on the queue: the locals it reads are looked up in a closed world
                y = tainted_in(s, self.cur_fn)
                if y is not None:
                    self.unknown.append((s, "branch on the local `%s`, which is computed from %s" % (y["ref"]["name"], QUEUE)
                                         if strip_casts(s)["k"] == "DeclRefExpr" else
                                         "branch on %s, where `%s` may be computed from %s" % (dtable.describe(s)[:40], y["ref"]["name"], QUEUE)))
            return ("opaque:%s" % s["id"], False)

        def refine(S, cond, truth, in_fn):
            """the valuations of S under which cond can evaluate to truth"""
            self.cur_fn = in_fn
            try:
                leaves = dtable.explore(cond, atomize, in_fn, as_expr=True)
            except dtable.Undecidable:
                if mentions(cond, QUEUE):
                    self.unknown.append((cond, "test of %s in a form that is not understood: %s" % (QUEUE, dtable.describe(cond)[:50])))
                return S
            sel = [l["val"] for l in leaves if l["result"] == truth]
            return frozenset(v for v in S if any(all(val.get(k, v[i]) == v[i] for i, k in enumerate(self.keys)) for val in sel))

        # lambdas created in fn that change the queue (or call a member that works on it): the state is unknown after a direct
        # call of one; one that is used in any other way runs at a place that is not known (`stray`)
        self.opaque, self.stray = {}, []
        for lx, lf in lambdas_in(tu, fn):
            if lf is None:
                self.stray.append((lx, "body of a lambda not in the IR"))
                continue
            if not (any(f == QUEUE and kind != "read" for f, kind, node, info in field_uses(lf)) or
                    any("callee" in y and y["callee"].get("did") in locks.by_did and {QUEUE, MUTEX} & reach_fields(locks, locks.by_did[y["callee"]["did"]])
                        for y in lf.nodes())):
                continue
            self.opaque[lf.did] = lx
            what = "a lambda changes %s and is not expanded into %s()" % (QUEUE, fn.name)
            self.unknown.append((lx, what))
            direct = fn.byid(lx["id"]) is lx
            if direct:
                p, c, _ = up(fn, lx)
                while p is not None and p["k"] in ("CXXConstructExpr", "CXXTemporaryObjectExpr") and len(kids(p)) == 1:
                    p, c, _ = up(fn, p)
                if p is not None and p["k"] == "VarDecl":
                    for f2 in tu.functions:
                        for y in f2.nodes():
                            if y["k"] == "DeclRefExpr" and y["ref"]["id"] == p["did"]:
                                q, c2, _ = up(fn, y) if f2 is fn else (None, None, None)
                                if not (q is not None and is_invoke(q) and is_first(q, c2) and q["callee"].get("did") == lf.did):
                                    direct = False
                elif not (p is not None and is_invoke(p) and is_first(p, c) and p["callee"].get("did") == lf.did):
                    direct = False
            if not direct:
                self.stray.append((lx, what + ", where it runs is not known"))

        preds = {}
        for w in sync.wait_calls(fn):
            e = None
            if w["pred"] is not None:
                lf = tu.by_did.get(w["pred"].get("fn"))
                e = dtable.stmts_as_expr(kids(lf.body)) if lf is not None else None
                preds[w["node"]["id"]] = (e, lf)
            else:
                preds[w["node"]["id"]] = (None, None)

        def transfer(el, S):
            if isinstance(el, dict):
                if el.get("dtor") in guards:
                    return havoc(S)
                return S
            n = fn.byid(el)
            if n is None:
                return S
            if n["k"] == "DeclStmt" and n["id"] in decl_guards:
                return havoc(S)
            if "callee" in n and kids(n) and (n.get("member_call") or n["k"] == "CXXOperatorCallExpr"):
                name = n["callee"]["name"]
                obj = kids(n)[0]
                if name in ("lock", "unlock", "try_lock") and (ref_of(obj) in guards or match.this_field(obj) == MUTEX):
                    return havoc(S)
                if name in WAITS and "condition_variable" in (n["callee"].get("record") or ""):
                    S = close(havoc(S))
                    e, lf = preds.get(n["id"], (None, None))
                    if e is not None:
                        S = refine(S, e, True, lf)      # the wait returns with its predicate true, evaluated under the mutex
                    return S
                f = match.this_field(obj)
                if f == QUEUE:
                    if name in PUSH:
                        return frozenset(with_e(v, False) for v in S)
                    if name == "clear":
                        return frozenset(with_e(v, True) for v in S)
                    if name in POP:
                        return havoc(S)
                    if name in CONTAINER_READ or n["callee"].get("const"):
                        return S
                    self.unknown.append((n, "operation on %s that is not classified: %s" % (QUEUE, dtable.describe(n)[:50])))
                    return havoc(S)
                if f in self.flags and name in ("operator=", "store", "exchange"):
                    i = self.keys.index(f)
                    return frozenset(v[:i] + (True,) + v[i + 1:] for v in S)
            if is_invoke(n) and n["callee"].get("did") in self.opaque:
                return top
            if "callee" in n and n["callee"].get("did") in locks.by_did and n["callee"]["did"] != fn.did:
                rf = reach_fields(locks, locks.by_did[n["callee"]["did"]])
                if QUEUE in rf or MUTEX in rf:
                    self.unknown.append((n, "%s() works on %s / %s and was not inlined" % (n["callee"]["name"], QUEUE, MUTEX)))
                    return top
            return S

        def from_queue(cond):
            """the value of cond may depend on the queue: it mentions it, calls a member of the pool that does, or reads a local
            that may be computed from it"""
            for y in ir.walk(cond):
                if y["k"] == "MemberExpr" and match.this_field(y) == QUEUE:
                    return True
                if "callee" in y and y["callee"].get("did") in locks.by_did and QUEUE in reach_fields(locks, locks.by_did[y["callee"]["did"]]):
                    return True
            return tainted_in(cond, fn) is not None

        def selector_values(e, depth=0):
            """the values an integer expression can take, each with the conditions under which it does:
            [([(condition, truth), ...], value)] for constants, c ? a : b and bool -> int conversions; else None"""
            while e is not None and kids(e) and (e["k"] == "ParenExpr" or (e["k"] in NOOP_CASTS and e.get("cast") in ("NoOp", "LValueToRValue", "IntegralCast")
                                                                         and (e.get("from") or "").replace("const ", "") != "bool")):
                e = kids(e)[0]
            if e is None or depth > 4:
                return None
            c = const_int(e)
            if c is not None:
                return [([], c)]
            if e["k"] in NOOP_CASTS and e.get("cast") == "IntegralCast" and (e.get("from") or "").replace("const ", "") == "bool" and kids(e):
                return [([(kids(e)[0], True)], 1), ([(kids(e)[0], False)], 0)]
            if e["k"] == "ConditionalOperator" and len(kids(e)) == 3:
                c0, a, b = kids(e)
                va, vb = selector_values(a, depth + 1), selector_values(b, depth + 1)
                if va is None or vb is None:
                    return None
                return [([(c0, True)] + cs, v) for cs, v in va] + [([(c0, False)] + cs, v) for cs, v in vb]
            return None

        def switch_edge(head, sw, s, out):
            """the valuations with which a switch goes to its successor s: the selector is evaluated if it is made of constants,
            ?: and bool -> int conversions over conditions that refine() understands; otherwise every edge stays possible (and a
            selector that is computed from the queue is listed as not understood)"""
            sel = kids(sw)[0] if kids(sw) else None
            labels = []
            stack = list(kids(sw)[1:])
            while stack:
                x = stack.pop()
                if x is None or x["k"] == "SwitchStmt":
                    continue
                if x["k"] in ("CaseStmt", "DefaultStmt"):
                    labels.append(x)
                stack.extend(kids(x))
            vals = selector_values(sel) if sel is not None and "init" not in sw and "condvar" not in sw else None
            if vals is None or len(vals) > 16 or any(x["k"] == "CaseStmt" and (len(kids(x)) != 1 or not isinstance(x.get("val"), int)) for x in labels):
                if sel is not None and from_queue(sel):
                    self.unknown.append((sel, "switch on a value computed from %s is not evaluated: %s" % (QUEUE, dtable.describe(sel)[:50])))
                return out
            all_vals = set(x["val"] for x in labels if x["k"] == "CaseStmt")
            ids = set(x["id"] for x in labels)
            raw = [t for t in g.blocks[head].get("succ", []) if t is not None]
            of_block = {}            # successor block -> labels of this switch that lead into it
            if any(g.blocks[t].get("label") in ids for t in raw):
                # clang's CFG: a block names its (outermost) label
                for t in raw:
                    lab = fn.byid(g.blocks[t]["label"]) if g.blocks[t].get("label") is not None else None
                    while lab is not None and lab["id"] in ids:
                        of_block.setdefault(t, []).append(lab)
                        lab = kids(lab)[-1] if kids(lab) else None
            elif getattr(fn, "normalized", False):
                # a CFG rebuilt by engine/cfgbuild.py: one successor per label of the switch body in source order, then the way
                # past the switch if there is no default
                flat = []
                body = kids(sw)[1] if len(kids(sw)) > 1 else None
                for x in (kids(body) if body is not None and body["k"] == "CompoundStmt" else [body]):
                    while x is not None and x["k"] in ("CaseStmt", "DefaultStmt"):
                        flat.append(x)
                        x = kids(x)[-1] if kids(x) else None
                if len(flat) == len(labels) and len(raw) == len(flat) + (0 if any(x["k"] == "DefaultStmt" for x in flat) else 1) and len(set(raw)) == len(raw):
                    for t, x in zip(raw, flat):
                        of_block.setdefault(t, []).append(x)
            if set(x["id"] for ls in of_block.values() for x in ls) != ids or len([t for t in set(raw) if t not in of_block]) > 1:
                # which successor belongs to which label is not known
                if from_queue(sel):
                    self.unknown.append((sel, "switch on a value computed from %s: its labels were not found in the CFG" % QUEUE))
                return out
            mine = set(x["val"] for x in of_block.get(s, []) if x["k"] == "CaseStmt")
            default = s not in of_block or any(x["k"] == "DefaultStmt" for x in of_block[s])   # no label: the way past a switch without default
            res = frozenset()
            for conds, v in vals:
                if v in mine or (default and v not in all_vals):
                    S2 = out
                    for c, t in conds:
                        S2 = refine(S2, c, t, fn)
                    res |= S2
            return res

        def edge(p, s, out):
            blk = g.blocks[p]
            raw = blk.get("succ", [])
            els = g.elements(p)
            if blk.get("term") is None:
                return out
            term = fn.byid(blk["term"])
            kind = term["k"] if term is not None else blk.get("termk")
            if kind == "SwitchStmt":
                return switch_edge(p, term, s, out) if term is not None and s in raw else out
            if len(raw) == 2 and raw[0] != raw[1] and els and isinstance(els[-1], int):
                if kind not in TWO_WAY or (term is not None and kind == "BinaryOperator" and term.get("op") not in ("&&", "||")):
                    # a try, a range-for ...: the successors are not `condition true` / `condition false`; every edge stays possible
                    return out
                cond = fn.byid(els[-1])
                if cond is not None and s in raw:
                    return refine(out, cond, raw[0] == s, fn)
            return out
        inn = {b: frozenset() for b in g.blocks}
        inn[g.entry] = top
        self.state = {}
        work = [g.entry]
        rounds = 0
        done = set()
        while work:
            rounds += 1
            if rounds > 20000:
                raise ir.AnalysisBroken("queue-state dataflow does not converge in %s" % fn.full)
            b = work.pop()
            done.add(b)
            S = close(inn[b])
            for i, el in enumerate(g.elements(b)):
                self.state[(b, i)] = self.state.get((b, i), frozenset()) | S
                S = close(transfer(el, S))
            for s in g.succ[b]:
                new = inn[s] | close(edge(b, s, S))
                if new != inn[s] or s not in done:
                    inn[s] = new
                    work.append(s)
        # edges that no valuation passes (a branch that contradicts what is known about the queue / the flags at that point)
        self.dead_edges = set()
        for b in g.blocks:
            if not inn[b] and b != g.entry:
                continue
            S = close(inn[b])
            for el in g.elements(b):
                S = close(transfer(el, S))
            for s_ in g.succ[b]:
                if not edge(b, s_, S):
                    self.dead_edges.add((b, s_))
        # the unknown list collects duplicates over the rounds
        seen, uniq = set(), []
        for n, w in self.unknown:
            if n["id"] not in seen:
                seen.add(n["id"])
                uniq.append((n, w))
        self.unknown = uniq

    def _all(self):
        out = [()]
        for _ in self.keys:
            out = [v + (b,) for v in out for b in (False, True)]
        return out

    def maybe_empty(self, node):
        """None if the node is not in the CFG; else the valuations before it under which the queue is empty"""
        p = self.g.pos(node)
        if p is None or p not in self.state:
            return None
        ei = self.keys.index(self.E)
        return [dict(zip(self.keys, v)) for v in sorted(self.state[p]) if v[ei]]


def queue_begin(e):
    """e is jobs_.begin() / jobs_.cbegin(), possibly converted to another iterator type"""
    e = strip_casts(e)
    for _ in range(4):
        if e is not None and e["k"] in WRAPPERS + ("CXXConstructExpr", "CXXTemporaryObjectExpr") and len(kids(e)) == 1 and \
                (e["k"] in WRAPPERS or "iterator" in (e.get("ty") or "")):
            e = strip_casts(kids(e)[0])
    return e is not None and "callee" in e and bool(e.get("member_call")) and e["callee"]["name"] in ("begin", "cbegin") and bool(kids(e)) and \
        len(kids(e)) == 1 and match.this_field(kids(e)[0]) == QUEUE


def take_ops(fn):
    """(fronts, pops, odd): reads of the element at an end of the job queue - front() back() *begin() [0] at(0) -, removals of
    that element - pop_front() pop_back() erase(begin()) -, and element accesses / removals of any other form"""
    fronts, pops, odd = [], [], []
    for x in fn.nodes():
        if "callee" not in x or not kids(x):
            continue
        name = x["callee"]["name"]
        if x.get("op") == "*" and len(kids(x)) == 1 and mentions(kids(x)[0], QUEUE):
            (fronts if queue_begin(kids(x)[0]) else odd).append(x)
        elif (x.get("member_call") or x["k"] == "CXXOperatorCallExpr") and match.this_field(kids(x)[0]) == QUEUE:
            args = kids(x)[1:]
            if name in ("front", "back") and not args:
                fronts.append(x)
            elif name in ("pop_front", "pop_back") and not args:
                pops.append(x)
            elif name in ("operator[]", "at") and len(args) == 1:
                (fronts if const_int(args[0]) == 0 else odd).append(x)
            elif name == "erase":
                (pops if len(args) == 1 and queue_begin(args[0]) else odd).append(x)
    for x in fn.nodes():
        if x["k"] == "UnaryOperator" and x.get("op") == "*" and kids(x) and mentions(kids(x)[0], QUEUE):
            odd.append(x)
        if x["k"] == "MemberExpr" and x.get("arrow") and kids(x) and strip_casts(kids(x)[0])["k"] != "This" and mentions(kids(x)[0], QUEUE):
            odd.append(x)          # jobs_.begin()->...
    return fronts, pops, odd


def take_label(x):
    name = x["callee"]["name"]
    if name == "operator*":
        return "*%s.begin()" % QUEUE
    if name == "erase":
        return "erase(%s.begin())" % QUEUE
    if name in ("operator[]", "at"):
        return "%s[0]" % QUEUE
    return name + "()"


def take_end(x):
    """'front' / 'back': the end of the job queue that a read or a removal recognised by take_ops refers to"""
    return "back" if x["callee"]["name"] in ("back", "pop_back") else "front"


def reach_fields(locks, fn, seen=None):
    """data members mentioned by fn and by the members of the pool it calls"""
    seen = seen if seen is not None else set()
    if fn.did in seen:
        return set()
    seen.add(fn.did)
    out = set()
    for x in fn.nodes():
        if x["k"] == "MemberExpr" and match.this_field(x):
            out.add(match.this_field(x))
        if "callee" in x and x["callee"].get("did") in locks.by_did:
            out |= reach_fields(locks, locks.by_did[x["callee"]["did"]], seen)
    return out


def pool_calls(locks, fn):
    """calls in fn of other members of the pool (helpers that were not inlined)"""
    return [x for x in fn.nodes() if "callee" in x and x["callee"].get("did") in locks.by_did and x["callee"]["did"] != fn.did]


def live_dominates(g, a, b, dead):
    """every path from the entry to position b that uses no edge of `dead` (edges that the evaluation of the branch conditions
    has shown to be infeasible) passes position a"""
    if g.dominates(a, b):
        return True
    if not dead or a[0] == b[0]:
        return False
    seen, work = set(), [g.entry]
    while work:
        x = work.pop()
        if x in seen or x == a[0]:
            continue
        seen.add(x)
        if x == b[0]:
            return False
        work.extend(t for t in g.succ[x] if (x, t) not in dead)
    return True


def entry_path_avoiding(g, goal, targets, dead=()):
    """cfg.path_from_entry_avoiding without the edges of `dead`: a path entry -> position goal that passes no target position
    before it and uses feasible edges only"""
    tset = {}
    for t in targets:
        if t is not None:
            tset.setdefault(t[0], []).append(t[1])
    dead = set(dead)
    work = [(g.entry, [g.entry])]
    seen = set()
    while work:
        b, path = work.pop()
        if b in seen:
            continue
        seen.add(b)
        if b == goal[0]:
            if not any(j < goal[1] for j in tset.get(b, [])):
                return path
            continue
        if b in tset:
            continue
        for t in g.succ[b]:
            if (b, t) not in dead:
                work.append((t, path + [t]))
    return None


def same_hold(locks, fn, pa, pb, dead=()):
    """positions pa and pb are executed in one hold of the mutex: the lock is held at both and no release / acquisition
    (unlock, lock, wait, construction or destruction of a guard) lies on a path between them (in the order in which they are
    executed).  True / False; undecidable if neither comes first.  dead: CFG edges known to be infeasible"""
    g = locks.g(fn)
    dead = set(dead)
    if locks.held(fn, pos=pa) is not True or locks.held(fn, pos=pb) is not True:
        return False
    first, second = (pa, pb) if live_dominates(g, pa, pb, dead) else (pb, pa) if live_dominates(g, pb, pa, dead) else (None, None)
    if first is None:
        undecided(fn, None, "order of the busy_ increment and the removal from the queue differs between paths")
    guards = locks.guards(fn)
    rel = [g.pos(u) for u in fn.nodes() if "callee" in u and u.get("member_call") and u["callee"]["name"] in ("unlock", "lock", "try_lock") + WAITS and g.pos(u)]
    rel += [g.pos(u) for u in fn.nodes() if u["k"] == "DeclStmt" and u["id"] in locks.base[fn.did].decl_at and g.pos(u)]
    rel += [(b, i) for b in g.blocks for i, el in enumerate(g.elements(b)) if isinstance(el, dict) and el.get("dtor") in guards]
    rel = [r for r in rel if r != first and r != second]
    for r in rel:
        if g.path_between_avoiding(first, r, [first], blocked_edges=dead) is not None and g.path_between_avoiding(r, second, [first], blocked_edges=dead) is not None:
            return False
    return True


# ------------------------------------------------------------------------------------------------ JOIN: which threads are joined
class JoinSkel(skel.Skel):
    """skeleton evaluation of a function that joins the worker threads, for a pool of n threads"""
    BASE = 1000

    def __init__(self, fn, n, tu):
        self.n = n
        self.joined = []
        skel.Skel.__init__(self, fn, {}, None, self.on_event, max_iter=16, tu=tu)

    def thread_index(self, obj, arrow):
        o = strip_casts(obj)
        if not arrow and "callee" in o and self.tu is not None and o["callee"].get("did") in self.tu.by_did and \
                self.tu.by_did[o["callee"]["did"]].record == TP and o.get("member_call") and kids(o) and strip_casts(kids(o)[0])["k"] == "This":
            # an accessor of the pool that returns a reference: thread(i)
            cal = self.tu.by_did[o["callee"]["did"]]
            rets = [y for y in ir.walk(cal.body) if y["k"] == "ReturnStmt"] if cal.body else []
            args = kids(o)[1:] if o.get("member_call") else kids(o)
            if len(rets) == 1 and kids(rets[0]) and len(args) == len(cal.params):
                saved = dict(self.env)
                for p_, a in zip(cal.params, args):
                    self.env[p_["did"]] = self.ev(a)
                try:
                    return self.thread_index(kids(rets[0])[0], False)
                finally:
                    self.env = saved
            return None
        ty = (o.get("ty") or "").rstrip()
        if arrow or ty.endswith("*"):
            a = self.ev(obj)
            return a - self.BASE if isinstance(a, int) and not isinstance(a, bool) else None
        key = self.lvalue(obj)
        if isinstance(key, tuple) and key[0] == "elem" and key[1] == ("field", "threads_"):
            return key[2]
        if isinstance(key, tuple) and key[0] == "mem" and isinstance(key[1], int):
            return key[1] - self.BASE
        return None

    def on_event(self, e, sk):
        if "callee" not in e or not kids(e):
            return NotImplemented
        name = e["callee"]["name"]
        if e.get("member_call"):
            obj = kids(e)[0]
            if match.this_field(obj) == "threads_":
                if name in ("size",):
                    return self.n
                if name == "empty":
                    return self.n == 0
                if name in ("begin", "cbegin", "data"):
                    return self.BASE
                if name in ("end", "cend"):
                    return self.BASE + self.n
                if name in ("operator[]", "at"):
                    return NotImplemented
                raise dtable.Undecidable("%s: operation on threads_ not understood: %s" % (self.fn.nloc(e), dtable.describe(e)[:50]))
            if "thread" in (e["callee"].get("record") or ""):
                if name == "joinable":
                    return True          # every worker thread was started by the constructor and is joined only here
                if name == "join":
                    self.joined.append(self.thread_index(obj, e.get("arrow")))
                    return None
            return NotImplemented
        if name in ("for_each",) and len(kids(e)) == 3:
            first, last = self.ev(kids(e)[0]), self.ev(kids(e)[1])
            lam = [y for y in ir.walk(kids(e)[2]) if y["k"] == "LambdaExpr"]
            lf = self.tu.by_did.get(lam[0].get("fn")) if len(lam) == 1 else None
            if not isinstance(first, int) or not isinstance(last, int) or lf is None or len(lf.params) != 1 or last - first > 64:
                raise dtable.Undecidable("%s: for_each over the threads not understood" % self.fn.nloc(e))
            saved_fn, saved_alias = self.fn, dict(self.alias)
            self.fn = lf
            try:
                for a in range(first, last):
                    self.alias[lf.params[0]["did"]] = ("mem", a)
                    try:
                        self.run(kids(lf.body))
                    except skel.Return:
                        pass
            finally:
                self.fn, self.alias = saved_fn, saved_alias
            return None
        return NotImplemented

    def stmt(self, s):
        if s is not None and s["k"] == "CXXForRangeStmt":
            ch = kids(s)
            if len(ch) >= 3 and match.this_field(ch[0]) == "threads_" and ch[1] is not None and ch[1]["k"] == "VarDecl" and \
                    (ch[1].get("isref") or (ch[1].get("ty") or "").rstrip().endswith("&")):
                for i in range(self.n):
                    self.alias[ch[1]["did"]] = ("elem", ("field", "threads_"), i)
                    try:
                        self.stmt(ch[2])
                    except skel._Break:
                        break
                    except skel._Continue:
                        pass
                return
            raise dtable.Undecidable("%s: range-for not understood" % self.fn.nloc(s))
        skel.Skel.stmt(self, s)


def joined_threads(tu, fn, n):
    sk = JoinSkel(fn, n, tu)
    try:
        sk.run(kids(fn.body))
    except skel.Return:
        pass
    except skel.Diverges as d:
        raise dtable.Undecidable("%s: a loop of the skeleton does not end for %d threads" % (fn.nloc(d.loop), n))
    return sk.joined


# ------------------------------------------------------------------------------------------------ the rules
def run(ck):
    ck.explanation = (
        "Lock-state dataflow (engine B) over the CFG of every ThreadPool member: mutex_ held / not held at every element, through RAII guards, "
        "explicit lock()/unlock() and condition-variable waits. Rules: LOCKSET (jobs_ only under mutex_, predicate lambdas count as held), "
        "TAKE-ATOMIC (front+pop_front in one hold after !empty), RUN-UNLOCKED (job invoked with the mutex released), JOB-LIFETIME (the job object "
        "is destroyed with the mutex released and before completion is signalled), WRITE-NOTIFY (every enabling write to a variable of a wait "
        "predicate - polarity derived from the predicate's truth table - is followed on all paths by a notify on that condition variable, with the "
        "mutex held at the write or at the notify), NOTIFY-KIND (notify_one only where one predicate is shared by all waiters and one unit is handed "
        "out), NO-BARE-WAIT, BUSY-PAIR, JOIN-UNLOCKED, WAIT-RETURN (loop_until_empty / loop_until_terminate return only on paths that pass the "
        "predicate wait or a test of the whole wait predicate in one hold of the mutex - a search over CFG block x knowledge about the atoms "
        "of the predicate). Whole-schedule properties (absence of deadlock / lost wake-up, exactly-once) are argued "
        "from these necessary conditions, not explored. A violation is reported on positive evidence only (lock state over recognised lock "
        "operations, a CFG path avoiding fully classified operations, a truth table, the join loop evaluated for 0/1/3 threads); an "
        "unrecognised construct gives `cannot decide`.")
    tu = ir.extract("tlx/thread_pool.cpp", ndebug=True)
    fns = [f for f in tu.find(record=TP)]
    ck.require(len(fns) >= 10, "ThreadPool members not found")
    expanded = set()         # local lambdas that are only called by name: expanded at their calls, judged through the member
    for f in fns:
        resolve_member_aliases(tu, f)     # reference aliases of data members read as the members themselves
    fns = inline_try_helpers(tu, fns)     # a new member helper with a try block, called as a statement: expanded at its calls
    for f in fns:
        expanded |= inline_classifier_lambdas(tu, f)     # a lambda that classifies the state into an enumeration: its calls read as its value
    for f in fns:
        expanded |= inline_local_lambdas(tu, f)
    locks = Locks(tu, fns)
    lambdas = [f for f in tu.functions if f.kind == "lambda" and f.qname.startswith(TP + "::") and f.did not in expanded]
    uses = {fn.did: field_uses(fn) for fn in fns}

    # ---- waits and predicates
    waits = []
    for fn in fns:
        for w in sync.wait_calls(fn):
            w["fn"] = fn
            waits.append(w)
    ck.require(len(waits) >= 3, "expected at least 3 condition-variable waits, found %d" % len(waits))
    preds = {}           # cv -> list of (text, mono, fn)
    unknown_pred = {}    # cv -> why a predicate waited for on it is not known
    wait_of = {}         # (function, id of a wait call) -> (wait with its re-check condition filled in, canonical text of its predicate)

    def check_wait(w):
        fn = w["fn"]
        if w["cv"] is None:
            undecided(fn, w["node"], "wait on a condition variable that is not a member named directly")
        where = "%s %s" % (fn.qname, w["cv"])
        if w["pred"] is None and w.get("loop_cond") is None:
            cond, why = recheck_loop_cond(fn, w["node"])
            if cond is None and why == "no loop":
                if locks.callers(fn):
                    unknown_pred[w["cv"]] = "%s: bare wait in %s, which is called from other members" % (fn.nloc(w["node"]), fn.qname)
                    undecided(fn, w["node"], "bare wait in %s(): the re-check loop may be in the caller %s" % (fn.name, locks.callers(fn)[0][0].qname))
                if any(y["k"] in ("LabelStmt", "GotoStmt") for y in fn.nodes()):
                    undecided(fn, w["node"], "bare wait in a function with goto: re-check loop not decided")
                ck.violation("NO-BARE-WAIT", fn.qname, "%s:%s" % (fn.name, w["cv"]), "wait() without predicate and without an enclosing re-check loop (spurious wake-ups)", fn.nloc(w["node"]))
                return
            if cond is None:
                unknown_pred[w["cv"]] = "%s: %s" % (fn.nloc(w["node"]), why)
                if locks.held(fn, w["node"]) is not True:
                    ck.violation("NO-BARE-WAIT", fn.qname, "%s:%s:unlocked" % (fn.name, w["cv"]), "wait() is called without holding the mutex", fn.nloc(w["node"]))
                else:
                    ck.ok("NO-BARE-WAIT", where, "bare wait inside a re-check loop")
                return
            w = dict(w, loop_cond=cond)
        try:
            text, mono, lf = pred_info(tu, w)
        except dtable.Undecidable as e:
            unknown_pred[w["cv"]] = str(e)
            raise
        preds.setdefault(w["cv"], []).append((text, mono, fn))
        wait_of[(fn.did, w["node"]["id"])] = (w, text)
        held = locks.held(fn, w["node"])
        if held is not True:
            ck.violation("NO-BARE-WAIT", fn.qname, "%s:%s:unlocked" % (fn.name, w["cv"]), "wait() is called without holding the mutex", fn.nloc(w["node"]))
        elif w["pred"] is None:
            ck.ok("NO-BARE-WAIT", where, "wait inside `while (!predicate)` with the mutex held: %s" % text)
        else:
            ck.ok("NO-BARE-WAIT", where, "predicate wait with the mutex held: %s" % text)
    for w in waits:
        ck.guarded(lambda w=w: check_wait(w))

    # ---- LOCKSET
    lam_eval = {}

    def check_access(fn, x):
        f = match.this_field(x)
        if fn.kind == "lambda":
            # every use of the lambda counts: a named predicate may also be called directly
            if fn.did not in lam_eval:
                lam_eval[fn.did] = lambda_evaluations(locks, fns, fn)
            kind, sites = lam_eval[fn.did]
            if kind == "pred":
                ck.ok("LOCKSET", "%s @%s" % (fn.qname, fn.nloc(x)), "%s read in a wait predicate (evaluated with the mutex held)" % f, nontrivial=False)
                return
            for sfn, call in sites:
                if locks.held(sfn, call) is not True:
                    ck.violation("LOCKSET", fn.qname, "lambda:" + f, "%s accessed in a lambda that is not a wait predicate and runs at %s, where mutex_ is not held"
                                 % (f, sfn.nloc(call)), fn.nloc(x))
                    return
            ck.ok("LOCKSET", "%s @%s" % (fn.qname, fn.nloc(x)), "%s accessed in a lambda that runs with mutex_ held" % f, nontrivial=False)
            return
        if fn.kind in ("ctor",):
            return
        for uf, kind, node, info in uses[fn.did]:
            if uf == f and kind == "unknown" and node["id"] == x["id"]:
                undecided(fn, x, "%s escapes (bound to a reference / passed on): later accesses are not followed" % f)
        held = locks.held(fn, x)
        if held is True:
            ck.ok("LOCKSET", "%s @%s" % (fn.qname, fn.nloc(x)), "%s accessed with mutex_ held" % f, nontrivial=False)
        else:
            ck.violation("LOCKSET", fn.qname, "%s:%s" % (fn.name, f),
                         "%s is accessed while mutex_ is %s" % (f, "not held" if held is False else "not held on some path"), fn.nloc(x))
    for fn in fns + lambdas:
        for x in fn.nodes():
            if x["k"] == "MemberExpr" and match.this_field(x) in GUARDED:
                ck.guarded(lambda fn=fn, x=x: check_access(fn, x))

    # flags that are only ever set to true (terminate_): what a test has shown about them stays true
    mono_flags = set()
    for fn_ in fns:
        for y in fn_.nodes():
            if y["k"] == "MemberExpr" and match.this_field(y) and is_bool_field(y):
                mono_flags.add(match.this_field(y))
    for fn_ in fns + lambdas:
        for f, kind, node, info in (uses[fn_.did] if fn_.did in uses else field_uses(fn_)):
            if f in mono_flags and kind not in ("read",) and not (kind == "set" and info is not None and const_int(info) not in (None, 0)) and fn_.kind != "ctor":
                mono_flags.discard(f)
    qstates = {}

    def queue_states(fn):
        if fn.did not in qstates:
            qstates[fn.did] = QueueStates(tu, fn, locks.g(fn), locks, mono_flags)
        return qstates[fn.did]

    # ---- worker rules
    worker = tu.one(qname=TP + "::worker")
    g = locks.g(worker)
    wuses = uses[worker.did]
    J = {}

    def take_atomic():
        fronts, pops, odd = take_ops(worker)
        if odd and not (fronts and pops):
            undecided(worker, odd[0], "access to an element of %s / removal from it in a form that is not understood: %s" % (QUEUE, dtable.describe(odd[0])[:50]))
        ck.require(fronts and pops, "worker: front()/pop_front() of the job queue not found")
        J["pops"] = pops
        qs = queue_states(worker)
        if qs.stray:
            undecided(worker, qs.stray[0][0], qs.stray[0][1])
        bad = None
        for x in fronts + pops:
            if qs.maybe_empty(x) is None:
                undecided(worker, x, "queue access not found in the CFG")
        for lst in (fronts, pops):
            if bad is None and not any(qs.state[g.pos(x)] for x in lst):
                # the evaluation shows that no valuation of (jobs_.empty(), flags) passes the conditions in front of the take
                bad = (lst[0], "%s is unreachable: the conditions that guard it cannot hold together, no job is ever taken" % take_label(lst[0]))
        for x in fronts + pops:
            st = qs.maybe_empty(x)
            if st and bad is None:
                bad = (x, "%s is reached with %s" % (take_label(x), ", ".join("%s = %s" % (k, str(v).lower()) for k, v in sorted(st[0].items()))))
        if bad is None:
            for x in pops:
                path = entry_path_avoiding(g, g.pos(x), [g.pos(y) for y in fronts if g.pos(y)], qs.dead_edges)
                if path is not None:
                    doubt = path_doubt(worker, g, path)
                    if doubt:
                        undecided(worker, x, doubt)
                    bad = (x, "%s is reached without a preceding front()" % take_label(x))
        if bad is None:
            # the element read and the element removed must be the same end of the queue
            for x in pops:
                before = [y for y in fronts if g.pos(y) and g.pos(x) and g.dominates(g.pos(y), g.pos(x))] or fronts
                if all(take_end(y) != take_end(x) for y in before):
                    if odd:
                        undecided(worker, odd[0], "access to an element of %s / removal from it in a form that is not understood: %s" % (QUEUE, dtable.describe(odd[0])[:50]))
                    y = before[0]
                    first, last = ("j1", "j2")
                    rd, rm = (last, first) if take_end(y) == "back" else (first, last)
                    ck.violation("TAKE-ATOMIC", worker.qname, "take-ends", "the job that is read is not the job that is removed: %s reads the %s of %s "
                                 "but %s removes the %s. Counterexample: queue [j1, j2]: the element read is %s but the element removed is %s -> %s never runs, "
                                 "%s's slot stays queued and is taken again (%s runs twice / its moved-from shell is invoked)"
                                 % (take_label(y), take_end(y), QUEUE, take_label(x), take_end(x), rd, rm, rm, rd, rd), worker.nloc(x))
                    return
        if bad is not None:
            if qs.unknown:
                undecided(worker, qs.unknown[0][0], qs.unknown[0][1])
            if odd:
                undecided(worker, odd[0], "access to an element of %s / removal from it in a form that is not understood: %s" % (QUEUE, dtable.describe(odd[0])[:50]))
            doubt = flag_branch(worker)
            if doubt:
                undecided(worker, bad[0], doubt)
            ck.violation("TAKE-ATOMIC", worker.qname, "take", "a job is not taken (front + pop_front) inside one lock hold guarded by !jobs_.empty(): another worker can take the same job (%s)"
                         % bad[1], worker.nloc(bad[0]))
        else:
            ck.ok("TAKE-ATOMIC", worker.qname, "front() and pop_front() in one hold of mutex_, reached only with !jobs_.empty() established in that hold")
    ck.guarded(take_atomic)

    def find_job():
        # job invocation: functor call on a local of delegate type
        def is_job_var(did):
            return any(x["k"] == "VarDecl" and x.get("did") == did and "Delegate" in x.get("ty", "") and not x.get("isref")
                       and not (x.get("ty") or "").rstrip().endswith("&") for x in worker.nodes())
        calls = [x for x in worker.nodes() if is_invoke(x) and ref_of(kids(x)[0]) is not None and is_job_var(ref_of(kids(x)[0]))]
        helper = None
        inner = []
        if not calls:
            # the invocation may sit in a small helper that receives the job: run_job(job)
            for x in worker.nodes():
                if "callee" in x and any(ref_of(a) is not None and is_job_var(ref_of(a)) for a in kids(x)):
                    cal = tu.by_did.get(x["callee"]["did"])
                    if cal is None or cal.body is None:
                        continue
                    args = kids(x)[(1 if x.get("member_call") else 0):]
                    pidx = [i for i, a in enumerate(args) if ref_of(a) is not None and is_job_var(ref_of(a))]
                    if not pidx or pidx[0] >= len(cal.params):
                        continue
                    pd = cal.params[pidx[0]]
                    inv = [y for y in cal.nodes() if is_invoke(y) and ref_of(kids(y)[0]) == pd["did"]]
                    if inv:
                        if not (pd.get("ty") or "").rstrip().endswith("&") or (pd.get("ty") or "").rstrip().endswith("&&"):
                            undecided(worker, x, "the job is handed to %s() by value / by move: its lifetime is not followed" % cal.name)
                        calls.append(x)
                        helper = cal
                        inner = inv
                        J["jv_did"] = ref_of(args[pidx[0]])
        else:
            J["jv_did"] = ref_of(kids(calls[0])[0])
        ck.require(len(calls) == 1 and all((ref_of(kids(c)[0]) if helper is None else J["jv_did"]) == J["jv_did"] for c in calls), "worker: job invocation not found")
        J["call"], J["helper"], J["inner"] = calls[0], helper, inner
        J["jv"] = [x for x in worker.nodes() if x["k"] == "VarDecl" and x.get("did") == J["jv_did"]][0]
        if g.pos(calls[0]) is None:
            undecided(worker, calls[0], "job invocation not found in the CFG")
        J["pcall"] = g.pos(calls[0])
    ck.guarded(find_job)

    def run_unlocked():
        call = J["call"]
        held = locks.held(worker, call)
        if held is False and J["helper"] is not None and locks.base.get(J["helper"].did) is not None:
            for y in J["inner"]:
                if locks.held(J["helper"], y) is not False:
                    held = None
        if held is not False:
            ck.violation("RUN-UNLOCKED", worker.qname, "job()", "the job is invoked while mutex_ may be held: a job that enqueues another job deadlocks", worker.nloc(call))
        else:
            ck.ok("RUN-UNLOCKED", worker.qname, "job() is invoked with mutex_ released")

    def counter_ops():
        """increments / decrements of busy_ and increments of done_ in worker; everything else done to them must be a read"""
        for x in pool_calls(locks, worker):
            cal = locks.by_did[x["callee"]["did"]]
            if reach_fields(locks, cal) & {"busy_", "done_"}:
                undecided(worker, x, "%s() works on busy_ / done_ and was not inlined" % cal.name)
        for lx, lf in lambdas_in(tu, worker):
            if lf is None:
                undecided(worker, lx, "body of a lambda not in the IR")
            for f, kind, node, info in field_uses(lf):
                if f in ("busy_", "done_") and kind != "read":
                    undecided(worker, lx, "a lambda that is not expanded into worker() works on %s (%s)" % (f, dtable.describe(node)[:40]))
            for y in lf.nodes():
                if "callee" in y and y["callee"].get("did") in locks.by_did and reach_fields(locks, locks.by_did[y["callee"]["did"]]) & {"busy_", "done_"}:
                    undecided(worker, lx, "a lambda that is not expanded into worker() calls %s(), which works on busy_ / done_" % y["callee"]["name"])
        incs, decs, dones = [], [], []
        for f, kind, node, info in wuses:
            if f not in ("busy_", "done_") or kind == "read":
                continue
            if kind != "delta" or info[1] != 1 or (f == "done_" and info[0] != "+"):
                undecided(worker, node, "operation on %s that is not a change by one: %s" % (f, dtable.describe(node)[:50]))
            if g.pos_deep(node) is None:
                undecided(worker, node, "counter operation not found in the CFG")
            (dones if f == "done_" else incs if info[0] == "+" else decs).append(node)
        return incs, decs, dones

    def evidence(path, node=None):
        """a CFG path found by a search is the evidence of a violation: not if one of its branches is of unknown feasibility"""
        doubt = path_doubt(worker, g, path)
        if doubt:
            undecided(worker, node, doubt)
        return True

    def busy_pair():
        pcall = J["pcall"]
        incs, decs, dones = counter_ops()
        J["decs"] = decs
        pops = J.get("pops") or []
        if not pops or any(g.pos(x) is None for x in pops):
            undecided(worker, None, "removal of the job from the queue not found: hold of the busy_ increment not decided")
        pos = g.pos_deep
        dead = queue_states(worker).dead_edges
        good = [n for n in incs if locks.held(worker, n) is True and all(same_hold(locks, worker, pos(n), g.pos(x), dead) for x in pops)]
        msg = None
        # ++busy_ under the lock, in the hold in which the job leaves the queue, on every path to job()
        # (otherwise jobs_.empty() && busy_ == 0 is observable by loop_until_empty(), which reads both under the lock, while a job is in flight)
        path = entry_path_avoiding(g, pcall, [pos(n) for n in good], dead)
        if path is not None and evidence(path, J["call"]):
            msg = "a path reaches job() without ++busy_ under the lock in the hold of pop_front"
        # --busy_ and ++done_ after the job on every path, ++done_ first
        if msg is None:
            for what, lst in (("--busy_", decs), ("++done_", dones)):
                path = g.path_avoiding(pcall, [pos(n) for n in lst], blocked_edges=dead)
                if path is not None and evidence(path, J["call"]):
                    msg = msg or "a path leaves job() without %s" % what
        if msg is None:
            for d in decs:
                path = g.path_between_avoiding(pcall, pos(d), [pos(n) for n in dones], blocked_edges=dead)
                if path is not None and evidence(path, d):
                    msg = msg or "--busy_ is reached after job() before ++done_"
        # balance: no two increments / decrements in a row
        if msg is None:
            for lst, other, what in ((decs, incs, "--busy_"), (incs, decs, "++busy_")):
                for a in lst:
                    for b in lst:
                        path = g.path_between_avoiding(pos(a), pos(b), [pos(n) for n in other], blocked_edges=dead)
                        if path is not None and evidence(path, a):
                            msg = msg or "%s is executed twice without the opposite step in between" % what
        if msg is None:
            ck.ok("BUSY-PAIR", worker.qname, "++busy_ (under the lock, in the hold in which the job leaves the queue) ... job() ... ++done_, --busy_ on every path")
        else:
            ck.violation("BUSY-PAIR", worker.qname, "busy", "busy_/done_ accounting does not bracket the job: ++busy_ must happen under the lock before pop_front, "
                         "++done_ then --busy_ after the job on every path (%s)" % msg, worker.loc)

    def exception_balanced():
        # exceptions: a job may throw; whatever must happen after the job (counters, re-lock, notify) must not share the try block
        # with the invocation, otherwise the handler is entered with those steps skipped
        call, helper, pcall = J["call"], J["helper"], J["pcall"]
        tries = []
        q = worker.parent(call)
        while q is not None:
            if q["k"] == "CXXTryStmt":
                tries.append(q)
            q = worker.parent(q)
        JUMPS = ("ReturnStmt", "BreakStmt", "ContinueStmt", "GotoStmt", "IndirectGotoStmt", "CoreturnStmt")
        THROWING = ("rethrow_exception", "throw_with_nested", "rethrow_if_nested")

        def is_throw(x):
            return x["k"] == "CXXThrowExpr" or ("callee" in x and (x["callee"] or {}).get("name") in THROWING)

        def handler_throw(f, h):
            """The throw expression that ends handler h on its straight-line path, None when h contains no throw at all;
            Undecidable when a throw sits inside control flow of the handler."""
            if not any(is_throw(y) for y in ir.walk(h)):
                return None
            hk = kids(h)
            body = hk[-1] if hk and hk[-1]["k"] == "CompoundStmt" else None
            if body is None:
                undecided(f, h, "catch handler contains a throw expression but its body is not a compound statement")
            flat = []

            def flatten(c):
                for s in kids(c):
                    if s["k"] == "CompoundStmt":
                        flatten(s)
                    else:
                        flat.append(s)
            flatten(body)
            for s in flat:
                e = s
                while e["k"] in ("ExprWithCleanups", "ParenExpr", "ImplicitCastExpr", "CStyleCastExpr") and len(kids(e)) >= 1:
                    e = kids(e)[-1]
                if is_throw(e):
                    return e
                if s["k"] in JUMPS:
                    return None          # the throw below is unreachable; the jump is judged by the path rules
                inner = [y for y in ir.walk(s) if is_throw(y) or y["k"] in JUMPS]
                if inner:
                    undecided(f, inner[0], "catch handler of the try around job() contains a throw expression and control flow (%s) that is not followed: "
                              "whether the exceptional path leaves worker() before ++done_ / --busy_ is not decided" % inner[0]["k"])
            undecided(f, h, "catch handler contains a throw expression that is not on its straight-line path")

        def rethrow_violation(f, h, th, via):
            ck.violation("EXCEPTION-BALANCED", worker.qname, "handler-throws",
                         "the catch handler of the try around job() ends in a throw expression%s: counterexample: a job throws std::runtime_error -> the handler "
                         "rethrows -> worker() is left with busy_ incremented and done_ not incremented (the worker thread dies) -> loop_until_empty() waits "
                         "for busy_ == 0 for ever" % via, f.nloc(th))

        if not tries and helper is not None and any(y["k"] == "CXXTryStmt" for y in helper.nodes()):
            for y in helper.nodes():
                if y["k"] == "CXXTryStmt":
                    for h in kids(y)[1:]:
                        th = handler_throw(helper, h)
                        if th is not None:
                            rethrow_violation(helper, h, th, " (in %s(), called from worker() outside any try block)" % helper.name)
                            return
            ck.ok("EXCEPTION-BALANCED", worker.qname, "the job runs inside %s(), whose try block contains nothing but the invocation" % helper.name)
            return
        if not tries:
            # closed world: the ancestors of the call are all there is; worker() is a thread main function, nothing catches above it
            if locks.callers(worker):
                undecided(worker, call, "worker() is called from %s: a try block may be there" % locks.callers(worker)[0][0].qname)
            ck.violation("EXCEPTION-BALANCED", worker.qname, "no-try", "the job is invoked outside any try block: a throwing job kills the worker with busy_ still raised",
                         worker.nloc(call))
            return
        t = tries[0]
        block = kids(t)[0]
        handlers = kids(t)[1:]

        def steps(root):
            out = []
            inside = set(y["id"] for y in ir.walk(root))
            for f, kind, node, info in wuses:
                if f in ("busy_", "done_", "idle_") and kind in ("delta", "set", "unknown") and node["id"] in inside:
                    out.append((node, f))
            for x in ir.walk(root):
                if "callee" in x and x.get("member_call") and x["callee"]["name"] in ("lock", "notify_all", "notify_one"):
                    out.append((x, x["callee"]["name"] + "()"))
            return out
        in_handlers = [set(w for n, w in steps(h)) for h in handlers]
        for h, done_here in zip(handlers, in_handlers):
            th = handler_throw(worker, h)
            if th is None:
                continue
            if len(tries) > 1:
                undecided(worker, th, "catch handler rethrows into an enclosing try block: where the exceptional path continues is not decided")
            if "busy_" in done_here or "done_" in done_here:
                undecided(worker, th, "catch handler touches busy_/done_ and then throws: the accounting on the exceptional path is not decided")
            rethrow_violation(worker, h, th, "")
            return
        in_try = set(y["id"] for y in ir.walk(t))
        outside = set(w for n, w in steps(worker.body) if n["id"] not in in_try and g.pos_deep(n) is not None and g.dominates(pcall, g.pos_deep(n)))
        really = []
        for x, what in steps(block):
            px = g.pos_deep(x)
            if px is None:
                undecided(worker, x, "step inside the try block not found in the CFG")
            if handlers and all(what in s for s in in_handlers):
                continue          # repeated in every handler
            if g.dominates(pcall, px):
                if what in outside:
                    undecided(worker, x, "%s follows job() inside the try block and is also done after job() outside of it: which one the exceptional path reaches is not decided" % what)
                really.append((x, what))       # executed only after job() returned
            elif not g.dominates(px, pcall):
                undecided(worker, x, "%s inside the try block is neither always before nor always after job()" % what)
        if really:
            x, what = really[0]
            ck.violation("EXCEPTION-BALANCED", worker.qname, "try:" + what,
                         "%s follows job() inside the same try block: a job that throws jumps to the handler and skips it, busy_ then never returns to "
                         "zero and loop_until_empty() / loop_until_terminate() block for ever" % what, worker.nloc(x))
        else:
            ck.ok("EXCEPTION-BALANCED", worker.qname, "the try block around job() contains none of the completion steps (%d handler(s))" % len(handlers))

    def job_lifetime():
        # job lifetime: destroyed unlocked, before completion is signalled
        jv, pcall = J["jv"], J["pcall"]
        decs = J.get("decs")
        if decs is None:
            decs = counter_ops()[1]
        destroy = [(b, i) for b in g.blocks for i, el in enumerate(g.elements(b)) if isinstance(el, dict) and el.get("dtor") == jv["did"]]
        loads = []       # positions at which the variable receives a closure
        assigns = []     # (position, node) of assignments that destroy the previous closure and store a new one
        swaps = []       # (position, node) of job.swap(<end element of the queue>): the previous closure goes into the queue slot
        if kids(jv) and kids(jv)[0] is not None:
            e = strip_casts(kids(jv)[0])
            if not (e["k"] in ("CXXConstructExpr", "CXXTemporaryObjectExpr") and not kids(e)):
                p = g.pos_deep(jv)
                if p is None:
                    undecided(worker, jv, "declaration of the job object not found in the CFG")
                loads.append(p)
        for y in worker.nodes():
            if y["k"] != "DeclRefExpr" or y["ref"]["id"] != jv["did"]:
                continue
            p, c, _ = up(worker, y)
            if p is not None and "callee" in p and p["callee"]["name"] in ("move", "forward", "addressof", "ref", "cref") and len(kids(p)) == 1:
                p, c, _ = up(worker, p)
            if p is not None and p["id"] == J["call"]["id"]:
                continue
            if p is not None and is_invoke(p) and is_first(p, c):
                continue
            if p is not None and "callee" in p and p.get("op") == "=" and is_first(p, c) and len(kids(p)) == 2:
                rhs = strip_casts(kids(p)[1])
                pos_ = g.pos_deep(p)
                if pos_ is None:
                    undecided(worker, p, "assignment to the job object not found in the CFG")
                if rhs is not None and (rhs["k"] == "NullPtr" or (rhs["k"] in ("CXXConstructExpr", "CXXTemporaryObjectExpr") and not kids(rhs))):
                    destroy.append(pos_)          # job = Job(): the closure dies here
                else:
                    assigns.append((pos_, p))
                    loads.append(pos_)
                continue
            if p is not None and "callee" in p and p.get("member_call") and is_first(p, c):
                if p["callee"]["name"] == "reset":
                    pos_ = g.pos_deep(p)
                    if pos_ is None:
                        undecided(worker, p, "reset of the job object not found in the CFG")
                    destroy.append(pos_)
                    continue
                if p["callee"]["name"] == "swap" and len(kids(p)) == 2 and "Delegate" in (p["callee"].get("record") or "") and \
                        any(strip_casts(kids(p)[1]) is fr or (strip_casts(kids(p)[1]) or {}).get("id") == fr["id"] for fr in take_ops(worker)[0]):
                    # job.swap(jobs_.front()): the closure of the queue's end element moves into the job object (a load, like the
                    # move construction) and whatever the job object held before moves into the queue slot, where the removal
                    # destroys it under the mutex (or, without a removal, it stays queued and runs again).  That is harmless only
                    # if the job object is empty at the swap: no path from a load / the invocation to the swap without a destruction
                    pos_ = g.pos_deep(p)
                    if pos_ is None:
                        undecided(worker, p, "swap of the job object not found in the CFG")
                    swaps.append((pos_, p))
                    loads.append(pos_)
                    continue
                if p["callee"].get("const"):
                    continue
            undecided(worker, y, "use of the job object that is not understood (%s): its lifetime is not followed"
                      % (dtable.describe(p)[:50] if p is not None and "k" in p and p["k"] not in ("CompoundStmt", "DeclStmt") else "escapes"))
        if not destroy or not decs:
            undecided(worker, jv, "job object lifetime not understood (no destructor point / completion counter found)")
        alive_from = [pcall] + loads
        dead = queue_states(worker).dead_edges
        why, at = "", None

        def reaches(src, dst, avoid):
            if src == dst:
                return None
            return g.path_between_avoiding(src, dst, [a for a in avoid if a != dst and a != src], blocked_edges=dead)
        for d in destroy:
            for s in alive_from:
                path = reaches(s, d, destroy)
                if path is not None and locks.held(worker, pos=d) is not False and evidence(path, jv):
                    why = why or "the job object is destroyed while mutex_ is held (a destructor that enqueues deadlocks)"
        for d in decs:
            path = reaches(pcall, g.pos_deep(d), destroy)
            if path is not None and evidence(path, d):
                why = why or "the job object outlives the completion signal: loop_until_empty() can return while the job's captures are still alive"
        for pa, a in assigns:
            for s in alive_from:
                path = g.path_between_avoiding(s, pa, [x for x in destroy if x != s], blocked_edges=dead)
                if path is not None and locks.held(worker, pos=pa) is not False and evidence(path, a):
                    why = "the job variable is re-assigned (the previous closure is destroyed at the assignment, under the lock)"
        for pa, a in swaps:
            for s in alive_from:
                path = g.path_between_avoiding(s, pa, [x for x in destroy if x != s], blocked_edges=dead)
                if path is not None and evidence(path, a):
                    why = why or ("the job object still holds a closure when it is swapped with the queue's element (line %s): the previous closure goes "
                                  "into the queue slot, where the removal destroys it under mutex_ (a destructor that enqueues deadlocks) or, "
                                  "without a removal, it is run a second time" % a.get("l"))
        if not why:
            ck.ok("JOB-LIFETIME", worker.qname, "the job object is destroyed with mutex_ released and before --busy_")
        else:
            ck.violation("JOB-LIFETIME", worker.qname, "job-dtor", why, worker.nloc(jv))
    if "call" in J:
        for rule in (run_unlocked, busy_pair, exception_balanced, job_lifetime):
            ck.guarded(rule)

    # ---- WRITE-NOTIFY and NOTIFY-KIND
    pvars = {}
    for cv, lst in preds.items():
        s = set()
        for text, mono, fn in lst:
            s |= set(mono)
        pvars[cv] = s
    notes_of = {fn.did: sync.notify_calls(fn) for fn in fns}

    def must_notify(fn, cv, seen=()):
        """'must' if every path through fn notifies cv, 'may' if some notify of cv (or of an unnamed cv) is reachable, else 'no'"""
        if fn.did in seen or fn.did not in locks.base:
            return "may"
        gg = locks.g(fn)
        pts, may = [], False
        for n in notes_of[fn.did]:
            if n["cv"] in (cv, None):
                may = True
                if n["cv"] == cv and gg.pos(n["node"]):
                    pts.append(gg.pos(n["node"]))
        for x in pool_calls(locks, fn):
            r = must_notify(locks.by_did[x["callee"]["did"]], cv, tuple(seen) + (fn.did,))
            if r != "no":
                may = True
            if r == "must" and gg.pos(x):
                pts.append(gg.pos(x))
        if pts and gg.path_from_entry_avoiding((gg.exit, 0), pts) is None:
            return "must"
        return "may" if may else "no"

    def write_notify(fn, x, f, eff, cv, lst):
        enabling = unknown_dir = False
        for text, mono, pfn in lst:
            for atom, direction in eff.items():
                if atom in mono:
                    m = mono[atom]
                    if direction == "unknown":
                        enabling = unknown_dir = True
                    elif m == "both" or (m == "up" and direction == "true") or (m == "down" and direction == "false"):
                        enabling = True
        if not enabling:
            return
        gg = locks.g(fn)
        where = "%s: %s -> %s" % (fn.qname, dtable.describe(x)[:40], cv)
        exc = NOTIFY_EXCEPTIONS.get((fn.name, f, cv))
        if exc:
            ck.ok("WRITE-NOTIFY", where, "exception table: " + exc, nontrivial=False)
            return
        ns = [n for n in notes_of[fn.did] if n["cv"] == cv and gg.pos(n["node"])]
        pts = [gg.pos(n["node"]) for n in ns]
        opaque = [n["node"] for n in notes_of[fn.did] if n["cv"] is None]
        for c in pool_calls(locks, fn):
            r = must_notify(locks.by_did[c["callee"]["did"]], cv)
            if r == "must" and gg.pos(c):
                pts.append(gg.pos(c))
            elif r != "no":
                opaque.append(c)
        px = gg.pos_deep(x)
        if px is None:
            undecided(fn, x, "write not found in the CFG")
        path = gg.path_avoiding(px, pts, blocked_edges=queue_states(fn).dead_edges)
        if path is not None:
            # a notification in the same hold of mutex_ before the write is as good: the woken waiter cannot evaluate its predicate
            # before the mutex is released, which is after the write
            before = [gg.pos(n["node"]) for n in ns if gg.dominates(gg.pos(n["node"]), px) and same_hold(locks, fn, gg.pos(n["node"]), px)]
            if before:
                ck.ok("WRITE-NOTIFY", where, "notified in the same hold of mutex_ in which the write happens (before the write)")
                return
            # evidence: a path from the write to the end of the function without a notification - if everything that could be one is known
            if unknown_dir:
                undecided(fn, x, "effect of %s on the predicate of %s not understood" % (dtable.describe(x)[:40], cv))
            if opaque:
                undecided(fn, opaque[0], "%s may notify %s; whether it always does is not decided" % (dtable.describe(opaque[0])[:40], cv))
            for lx, lf in lambdas_in(tu, fn):
                if lf is None or any(n["cv"] in (cv, None) for n in sync.notify_calls(lf)) or \
                        any("callee" in y and y["callee"].get("did") in locks.by_did and must_notify(locks.by_did[y["callee"]["did"]], cv) != "no" for y in lf.nodes()):
                    undecided(fn, lx, "a lambda in %s() may notify %s; where it runs is not followed" % (fn.name, cv))
            if locks.callers(fn):
                undecided(fn, x, "%s() is called from %s: the notification may follow there" % (fn.name, locks.callers(fn)[0][0].qname))
            doubt = path_doubt(fn, gg, path)
            if doubt:
                undecided(fn, x, doubt)
            ck.violation("WRITE-NOTIFY", fn.qname, "%s:%s:%s" % (fn.name, f, cv),
                         "%s may make a predicate of %s true but there is a path on which %s is not notified afterwards (lost wake-up)"
                         % (dtable.describe(x)[:50], cv, cv), fn.nloc(x))
            return
        held_w = locks.held(fn, x)
        after = [n for n in ns if gg.reachable(px, gg.pos(n["node"]))]
        if held_w is True:
            ck.ok("WRITE-NOTIFY", where, "followed by notify on all paths; mutex_ held at the write")
            return
        if len(pts) != len(ns):
            undecided(fn, x, "the notification of %s happens in a helper: lock state there not followed" % cv)
        held_n = all(locks.held(fn, n["node"]) is True for n in after)
        if held_n:
            ck.ok("WRITE-NOTIFY", where, "followed by notify on all paths; mutex_ held at the notify")
        else:
            ck.violation("WRITE-NOTIFY", fn.qname, "%s:%s:%s:unlocked" % (fn.name, f, cv),
                         "%s changes a wait predicate of %s with mutex_ neither held at the write nor at the notify: a waiter that has just "
                         "evaluated its predicate misses the notification" % (dtable.describe(x)[:50], cv), fn.nloc(x))
    for fn in fns:
        if fn.kind == "ctor" or not fn.cfg:
            continue
        for f, kind, x, info in uses[fn.did]:
            eff = effects_of(f, kind, x, info)
            if not eff:
                continue
            for cv, lst in preds.items():
                ck.guarded(lambda fn=fn, x=x, f=f, eff=eff, cv=cv, lst=lst: write_notify(fn, x, f, eff, cv, lst))

    # a write to a variable of a wait predicate inside a lambda that was not expanded: where it runs, hence what follows it, is not known
    def lambda_write(lam, x, f, eff):
        for cv, lst in preds.items():
            if any(atom in mono for text, mono, pfn in lst for atom in eff):
                undecided(lam, x, "%s inside a lambda changes a wait predicate of %s: the notification after it is not followed" % (dtable.describe(x)[:40], cv))
    for lam in lambdas:
        for f, kind, x, info in field_uses(lam):
            eff = effects_of(f, kind, x, info)
            if eff:
                ck.guarded(lambda lam=lam, x=x, f=f, eff=eff: lambda_write(lam, x, f, eff))

    # notify kind
    def notify_kind(fn, n):
        cv = n["cv"]
        if cv is None:
            undecided(fn, n["node"], "notification of a condition variable that is not a member named directly")
        lst = preds.get(cv, [])
        distinct = sorted(set(t for t, m, f in lst))
        where = "%s %s.%s" % (fn.qname, cv, n["kind"])
        if n["kind"] == "notify_all":
            ck.ok("NOTIFY-KIND", where, "notify_all")
            return
        if len(distinct) > 1:
            ck.violation("NOTIFY-KIND", fn.qname, "%s:%s" % (fn.name, cv),
                         "%s is waited on with %d different predicates (%s) but signalled with notify_one: the single wake-up can go to a waiter "
                         "whose predicate is false while the one that could proceed stays blocked" % (cv, len(distinct), " | ".join(distinct)), fn.nloc(n["node"]))
            return
        if cv in unknown_pred:
            undecided(fn, n["node"], "%s is signalled with notify_one but a predicate waited for on it is not understood (%s)" % (cv, unknown_pred[cv]))
        # one shared predicate: notify_one only for a write that hands out a single unit
        gg = locks.g(fn)
        pn = gg.pos(n["node"])
        if pn is None:
            undecided(fn, n["node"], "notification not found in the CFG")
        flagw = []
        for f, kind, x, info in uses[fn.did]:
            if kind == "set" and f in pvars.get(cv, ()) and info is not None and const_int(info) is not None and const_int(info) != 0:
                px = gg.pos_deep(x)
                if px and gg.reachable(px, pn):
                    flagw.append(x)
        if flagw:
            ck.violation("NOTIFY-KIND", fn.qname, "%s:%s:flag" % (fn.name, cv), "a flag that releases every waiter is published with notify_one", fn.nloc(n["node"]))
        else:
            ck.ok("NOTIFY-KIND", where, "single predicate (%s), one unit handed out" % (distinct[0] if distinct else "?"))
    for fn in fns:
        for n in notes_of[fn.did]:
            ck.guarded(lambda fn=fn, n=n: notify_kind(fn, n))

    # ---- WAIT-RETURN: a member that blocks until the pool is quiescent returns only after it has seen its WHOLE predicate under mutex_
    # Scope: every member of the pool, other than the thread main function and what only it calls, from which a condition-variable
    # wait is reached (loop_until_empty, loop_until_terminate; a helper they share).  The predicate P that counts is the one of the
    # wait itself (the truth table NO-BARE-WAIT derives).  Every path from the entry of the member to its return must pass a point
    # at which P is known to hold with mutex_ held: the return of a predicate wait on P, a call of a member that always passes such
    # a point, or a branch whose outcome - together with what earlier branches of the same hold of mutex_ have shown - leaves only
    # valuations of the atoms of P under which P is true.  What a test shows is forgotten when mutex_ is released, acquired or
    # waited on, and is not kept at all if mutex_ is not held at the test (except that a flag that is only ever set stays set).
    # The evidence of a violation is a path entry -> return over branches that are all read (every leaf an atom over a data member,
    # a constant, a const local standing for its initialiser) on which P is never established; a branch that is not read, a helper
    # that may or may not wait, a lambda that waits makes the answer undecidable.
    own_waits = {}
    for w in waits:
        own_waits.setdefault(w["fn"].did, []).append(w)

    def called_from(fn, seen):
        if fn.did not in seen:
            seen.add(fn.did)
            for x in pool_calls(locks, fn):
                called_from(locks.by_did[x["callee"]["did"]], seen)
        return seen
    worker_side = called_from(worker, set())

    def waits_reached(fn):
        return [w for did in sorted(called_from(fn, set())) for w in own_waits.get(did, [])]

    def const_locals(fn):
        """did -> (VarDecl, initialiser) of the const non-reference locals of fn: such a local is a snapshot of its initialiser"""
        out = {}
        for v in fn.nodes():
            ty = (v.get("ty") or "").strip()
            if v["k"] == "VarDecl" and v.get("did") is not None and ty.startswith("const ") and not ty.endswith("&") and not ty.endswith("*") \
                    and not v.get("isref") and not v.get("static") and kids(v) and kids(v)[0] is not None and ty.replace("const ", "") in \
                    ("bool", "int", "unsigned int", "long", "unsigned long", "size_t", "std::size_t"):
                out[v["did"]] = (v, kids(v)[0])
        return out

    class WaitFlow:
        """search over (CFG block, what the tests of the current hold of mutex_ have shown about the atoms of P) for a path from the
        entry of fn to its return on which P is never established.  strict: only steps that are fully understood are taken"""

        def __init__(self, fn, atoms, rows, memo, block_text=None):
            self.fn, self.atoms, self.rows, self.memo = fn, atoms, rows, memo
            # block_text: None = search for a return without P (WAIT-RETURN); the canonical text of P = search for a bare wait that
            # is entered while P may hold (NO-BARE-WAIT, obligation `checked before blocking`): establishing P does not end a path then
            self.block_text = block_text
            self.g = locks.g(fn)
            self.n = len(atoms)
            self.top = frozenset(rows)
            self.ptrue = frozenset(v for v, r in rows.items() if r)
            self.guards = locks.guards(fn)
            self.decl_guards = set(locks.base[fn.did].decl_at)
            self.waits_here = dict((w["node"]["id"], w) for w in own_waits.get(fn.did, []))
            self.snaps = const_locals(fn)
            self.pfields = set(a.split(".")[0].split("==")[0] for a in atoms)
            self.writes = {}
            self.write_unplaced = None
            for f, kind, node, info in uses[fn.did]:
                if kind in ("read", "sync") or f not in self.pfields:
                    continue
                idx = set(i for i, a in enumerate(atoms) if a in (f, f + ".empty", f + "==0"))
                p = self.g.pos_deep(node)
                if p is None:
                    self.write_unplaced = node
                else:
                    self.writes.setdefault(p, set()).update(idx)
            self._cond = {}
            try:
                self.dead = set(queue_states(fn).dead_edges)
            except ir.AnalysisBroken:
                self.dead = set()

        def havoc(self, K, idx=None):
            """the atoms (all, or those of idx) may have any value again; a flag that is only ever set stays set"""
            out = set()
            for v in K:
                vals = [()]
                for i in range(self.n):
                    keep = (idx is not None and i not in idx) or (self.atoms[i] in mono_flags and v[i])
                    vals = [x + (b,) for x in vals for b in ((v[i],) if keep else (False, True))]
                out.update(vals)
            return frozenset(out)

        def cond_info(self, b):
            """what the condition at the end of block b shows: ({True: valuations under which it can be true, False: ...}, held) or
            (None, reason) if it is not read"""
            if b in self._cond:
                return self._cond[b]
            fn, g = self.fn, self.g
            els = g.elements(b)
            cond = fn.byid(els[-1])
            opaque, used = [], set()

            def atomize(n, run):
                s = strip_casts(n)
                if s is None:
                    return None
                a = pred_atom(s)
                if a is not None:
                    return a
                k = s["k"]
                if (k == "UnaryOperator" and s.get("op") == "!") or (k == "BinaryOperator" and s.get("op") in ("&&", "||")) or \
                        k in ("ConditionalOperator", "CXXBoolLiteralExpr") or const_int(s) is not None:
                    return None
                if k == "DeclRefExpr" and s["ref"]["id"] in self.snaps:
                    used.add(s["ref"]["id"])
                    return None
                if "callee" in s and dtable.inline_call(fn, s) is not None:
                    return None          # a named predicate / a small accessor: its value is the expression it returns
                opaque.append(s)
                return ("opaque:%s" % s["id"], False)

            def pre(r):
                for did, (v, init) in self.snaps.items():
                    r.env[did] = init
            res = None
            try:
                leaves = dtable.explore(cond, atomize, fn, as_expr=True, pre=pre)
            except dtable.Undecidable as e:
                res = (None, "the test `%s` (line %s) is not understood" % (dtable.describe(cond)[:50], cond.get("l")))
            if res is None and opaque:
                res = (None, "the test `%s` (line %s) is not read: `%s` is not a test of a data member" % (dtable.describe(cond)[:50], cond.get("l"), dtable.describe(opaque[0])[:40]))
            if res is None:
                tab = {True: set(), False: set()}
                for v in self.top:
                    for l in leaves:
                        if all(l["val"].get(a, v[i]) == v[i] for i, a in enumerate(self.atoms)):
                            tab[bool(l["result"])].add(v)
                pos = (b, len(els) - 1)
                held = locks.held(fn, pos=pos)
                for did in sorted(used):
                    # a const local is read where it is declared: what it shows counts for this hold of mutex_ only if it is declared in it
                    pd = g.pos_deep(self.snaps[did][0])
                    same = pd is not None and held is True and not self.writes
                    if same:
                        try:
                            same = same_hold(locks, fn, pd, pos, self.dead)
                        except dtable.Undecidable:
                            same = False
                    if not same:
                        s = strip_casts(cond)
                        while s is not None and s["k"] == "UnaryOperator" and s.get("op") == "!":
                            s = strip_casts(kids(s)[0])
                        if s is not None and s["k"] == "DeclRefExpr" and s["ref"]["id"] == did and pd is not None and not self.writes:
                            held = False if held is True else held          # a snapshot taken in another hold: as good as a test without mutex_
                        else:
                            res = (None, "the test `%s` (line %s) mixes the const local `%s`, which was read in another hold of %s, with other terms"
                                   % (dtable.describe(cond)[:50], cond.get("l"), self.snaps[did][0].get("name"), MUTEX))
                if res is None:
                    res = (tab, held)
            self._cond[b] = res
            return res

        def transfer(self, el, pos, K, strict):
            """K after the element, None if P is established there, () if the step is not taken (strict)"""
            fn = self.fn
            if isinstance(el, dict):
                return self.havoc(K) if el.get("dtor") in self.guards else K
            nd = fn.byid(el)
            if nd is None:
                return K
            if pos in self.writes:
                K = self.havoc(K, self.writes[pos])
            if nd["k"] == "DeclStmt" and nd["id"] in self.decl_guards:
                return self.havoc(K)
            if "callee" in nd and kids(nd):
                name = nd["callee"]["name"]
                if nd.get("member_call") or nd["k"] == "CXXOperatorCallExpr":
                    obj = kids(nd)[0]
                    if name in ("lock", "unlock", "try_lock") and (ref_of(obj) in self.guards or match.this_field(obj) == MUTEX):
                        return self.havoc(K)
                    if name in WAITS and "condition_variable" in (nd["callee"].get("record") or ""):
                        w = self.waits_here.get(nd["id"])
                        if w is not None and w["pred"] is not None and name == "wait":
                            if self.block_text is None:
                                return None          # the wait returns with its predicate true, evaluated under the mutex
                            if wait_of.get((fn.did, nd["id"]), (None, None))[1] == self.block_text:
                                return self.ptrue    # the same predicate: it holds, seen in this hold of the mutex
                            if strict:
                                return ()
                            self.note = self.note or (nd, "a wait for another predicate lies on the path")
                            return self.havoc(K)
                        # a bare wait may return at any time (the loop around it re-checks); a timed wait returns when the time is
                        # up, with its predicate false
                        return self.havoc(K)
                did = nd["callee"].get("did")
                if did in locks.by_did and did != fn.did:
                    cal = locks.by_did[did]
                    r = self.memo(cal)
                    if r == "must" and self.block_text is not None:
                        r = "may"
                    if r == "must":
                        return None
                    if r == "may":
                        if strict:
                            return ()
                        self.note = self.note or (nd, "%s() waits on some of its paths only, or in a way that is not understood" % cal.name)
                        return self.havoc(K)
                    rf = reach_fields(locks, cal)
                    if MUTEX in rf or self.pfields & rf:
                        return self.havoc(K)
            return K

        def edge(self, b, s, K, strict):
            """(K on the edge b -> s | None if P is established | () if the edge is not taken, description of the test)"""
            fn, g = self.fn, self.g
            blk = g.blocks[b]
            raw = blk.get("succ", [])
            els = g.elements(b)
            if blk.get("term") is None or len(set(t for t in raw if t is not None)) < 2:
                return K, None
            term = fn.byid(blk["term"])
            kind = term["k"] if term is not None else blk.get("termk")
            if kind == "SwitchStmt":
                if strict:
                    return (), None
                self.note = self.note or (term, "the switch in line %s is not evaluated" % (term.get("l") if term is not None else "?"))
                return K, None
            if not (len(raw) == 2 and raw[0] != raw[1] and els and isinstance(els[-1], int) and kind in TWO_WAY) or \
                    (term is not None and kind == "BinaryOperator" and term.get("op") not in ("&&", "||")) or s not in raw:
                return K, None          # try, range-for: the edges are not `condition true / false`, nothing is learnt
            cond = fn.byid(els[-1])
            if cond is None:
                return K, None
            tab, held = self.cond_info(b)
            truth = raw[0] == s
            if tab is None:
                if strict:
                    return (), None
                self.note = self.note or (cond, held)
                return K, None
            K2 = frozenset(v for v in K if v in tab[truth])
            if not K2:
                return (), None
            if held is None:
                # held on some paths only: what the test shows on the path searched is not decided
                if strict:
                    return (), None
                self.note = self.note or (cond, "whether %s is held at the test `%s` (line %s) differs between paths" % (MUTEX, dtable.describe(cond)[:40], cond.get("l")))
                return self.havoc(K2), (cond, truth, False)
            if held is True:
                if K2 <= self.ptrue and self.block_text is None:
                    return None, None
                return K2, (cond, truth, True)
            return self.havoc(K2), (cond, truth, False)

        def search(self, strict, target=None):
            """(blocks of the path, tests on it) of a path entry -> return on which P is never established, else None.
            With target (id of a bare wait call; block mode): (blocks, tests, valuations) of a path entry -> that wait at which
            valuations with P true are still possible, i.e. the wait is entered without P having been found false in this hold"""
            g = self.g
            self.note = None
            if self.write_unplaced is not None and not strict:
                self.note = (self.write_unplaced, "a write to a variable of the predicate was not found in the CFG")
            start = (g.entry, self.top)
            parent = {start: None}
            work = [start]
            head = 0
            while head < len(work):
                if len(work) > 20000:
                    undecided(self.fn, None, "search for a return without the wait predicate does not end in %s" % self.fn.qname)
                b, K = work[head]
                head += 1
                hit = None
                if target is not None:
                    cur = K
                    for i, el in enumerate(g.elements(b)):
                        if isinstance(el, int) and el == target and cur and cur & self.ptrue:
                            hit = sorted(cur & self.ptrue)
                            break
                        cur = self.transfer(el, (b, i), cur, strict)
                        if cur is None or cur == ():
                            break
                if (b == g.exit and target is None) or hit is not None:
                    path, tests = [], []
                    x = (b, K)
                    while x is not None:
                        path.append(x[0])
                        link = parent[x]
                        if link is None:
                            break
                        if link[1] is not None:
                            tests.append(link[1])
                        x = link[0]
                    if hit is not None:
                        return path[::-1], tests[::-1], hit
                    return path[::-1], tests[::-1]
                cur = K
                for i, el in enumerate(g.elements(b)):
                    cur = self.transfer(el, (b, i), cur, strict)
                    if cur is None or cur == ():
                        break
                if cur is None or cur == ():
                    continue
                for s in g.succ[b]:
                    if (b, s) in self.dead:
                        continue
                    K2, info = self.edge(b, s, cur, strict)
                    if K2 is None or not K2:
                        continue
                    if (s, K2) not in parent:
                        parent[(s, K2)] = ((b, K), info)
                        work.append((s, K2))
            return None

    def wait_return(fn):
        ws = waits_reached(fn)
        where = fn.qname
        for lx, lf in lambdas_in(tu, fn):
            if lf is None:
                undecided(fn, lx, "body of a lambda not in the IR")
            if sync.wait_calls(lf):
                undecided(fn, lx, "a lambda in %s() waits on a condition variable; where it runs is not followed" % fn.name)
            if any("callee" in y and y["callee"].get("did") in locks.by_did and waits_reached(locks.by_did[y["callee"]["did"]]) for y in lf.nodes()):
                undecided(fn, lx, "a lambda in %s() calls a member that waits; where it runs is not followed" % fn.name)
        for w in ws:
            if (w["fn"].did, w["node"]["id"]) not in wait_of:
                undecided(w["fn"], w["node"], "the predicate of the wait on %s is not understood%s: whether %s() returns only after it holds is not decided"
                          % (w["cv"], " (%s)" % unknown_pred[w["cv"]] if w["cv"] in unknown_pred else "", fn.name))
        texts = sorted(set(wait_of[(w["fn"].did, w["node"]["id"])][1] for w in ws))
        if len(texts) != 1:
            undecided(fn, ws[0]["node"], "%s() waits for %d different predicates (%s): which one it promises at its return is not decided" % (fn.name, len(texts), " | ".join(texts)))
        w0 = wait_of[(ws[0]["fn"].did, ws[0]["node"]["id"])][0]
        e, negate, lf = pred_expr(tu, w0)
        leaves = dtable.explore(e, pred_atom, lf, as_expr=True)
        atoms = sorted(dtable.atoms_of(leaves))
        rows = {}
        for v, l in dtable.table(leaves, None, atoms):
            rows[tuple(v[a] for a in atoms)] = (not l["result"]) if negate else l["result"]
        busy = set()
        verdicts = {}

        def establishes(cal):
            """must: every path through cal passes a point at which P holds under mutex_; no: cal does not wait; may: anything else"""
            if cal.did in verdicts:
                return verdicts[cal.did]
            if not waits_reached(cal):
                return "no"
            if cal.did in busy or cal.did not in locks.base:
                return "may"
            busy.add(cal.did)
            try:
                r = "must" if WaitFlow(cal, atoms, rows, establishes).search(False) is None else "may"
            except ir.AnalysisBroken:
                r = "may"
            finally:
                busy.discard(cal.did)
            verdicts[cal.did] = r
            return r
        busy.add(fn.did)
        flow = WaitFlow(fn, atoms, rows, establishes)
        wit = flow.search(True)
        if wit is None:
            wit2 = flow.search(False)
            if wit2 is not None:
                node, what = flow.note if flow.note else (None, "a step on the path is not understood")
                undecided(fn, node, "%s() may return without its wait predicate %s having held under %s, but %s" % (fn.name, texts[0], MUTEX, what))
            ck.ok("WAIT-RETURN", where, "every path to the return passes a point at which the whole wait predicate %s holds with %s held "
                  "(the predicate wait, or a test of all its terms in one hold)" % (texts[0], MUTEX))
            return
        path, tests = wit
        doubt = path_doubt(fn, flow.g, path)
        if doubt:
            undecided(fn, None, doubt)
        if locks.callers(fn):
            undecided(fn, None, "%s() has a path to its return that does not establish the wait predicate %s, but it is called from %s: the wait may follow there"
                      % (fn.name, texts[0], locks.callers(fn)[0][0].qname))
        if tests:
            seen = ", ".join("`%s` is %s (line %s, %s %s)" % (dtable.describe(c)[:40], "true" if t else "false", c.get("l"), MUTEX, "held" if h else "not held")
                             for c, t, h in tests[-3:])
            loc = fn.nloc(tests[-1][0])
        else:
            seen = "no test of the predicate"
            loc = fn.loc
        ck.violation("WAIT-RETURN", fn.qname, fn.name + ":return",
                     "%s() can return without its wait predicate %s having held under %s: the function promises quiescence, but on a path to its return "
                     "the only tests are %s - a part of the predicate, or a test without the mutex, lets it return while a job is still running"
                     % (fn.name, texts[0], MUTEX, seen), loc)
    for fn in fns:
        if fn.kind == "ctor" or not fn.cfg or fn.did in worker_side:
            continue
        if waits_reached(fn) or any(lf is not None and sync.wait_calls(lf) for lx, lf in lambdas_in(tu, fn)):
            ck.guarded(lambda fn=fn: wait_return(fn))

    # ---- NO-BARE-WAIT, second obligation: a wait without predicate blocks only after its predicate was found FALSE in this hold
    # wait(lock, P) tests P before it blocks.  A hand-written loop around wait(lock) has to do the same: if the thread blocks while
    # P already holds, every notification for P may have been sent before (the writes that make P true notify once, WRITE-NOTIFY),
    # and nobody wakes it again - a lost wake-up.  Obligation: at every untimed bare wait, the tests taken since mutex_ was last
    # acquired / released / waited on leave only valuations of the atoms of P (P = negated re-check condition, as derived above)
    # under which P is false.  Decided by the same search as WAIT-RETURN (CFG block x knowledge about the atoms), goal = the wait.
    # Evidence of a violation: a path entry -> wait over branches that are all read, and a valuation with P true that survives
    # them.  A timed wait is not judged (it returns by itself); a wait whose predicate is not known is `cannot decide`.
    def wait_checked(w):
        fn = w["fn"]
        where = "%s %s" % (fn.qname, w["cv"])
        key = (fn.did, w["node"]["id"])
        if key not in wait_of and w["cv"] not in unknown_pred:
            return          # no re-check loop at all: reported by the first obligation
        if key not in wait_of:
            undecided(fn, w["node"], "bare wait on %s: the condition it waits for is not understood%s, so whether it is tested before blocking is not decided"
                      % (w["cv"], " (%s)" % unknown_pred[w["cv"]] if w["cv"] in unknown_pred else ""))
        w0, text = wait_of[key]
        e, negate, lf = pred_expr(tu, w0)
        leaves = dtable.explore(e, pred_atom, lf, as_expr=True)
        atoms = sorted(dtable.atoms_of(leaves))
        rows = {}
        for v, l in dtable.table(leaves, None, atoms):
            rows[tuple(v[a] for a in atoms)] = (not l["result"]) if negate else l["result"]
        flow = WaitFlow(fn, atoms, rows, lambda cal: "may" if waits_reached(cal) else "no", block_text=text)
        wit = flow.search(True, target=w["node"]["id"])
        if wit is None:
            wit2 = flow.search(False, target=w["node"]["id"])
            if wit2 is not None:
                node, what = flow.note if flow.note else (None, "a step on the path is not understood")
                undecided(fn, node, "%s() may block in wait() on %s while %s already holds, but %s" % (fn.name, w["cv"], text, what))
            ck.ok("NO-BARE-WAIT", where + " checked", "the bare wait is entered only after %s was found false in the same hold of %s" % (text, MUTEX))
            return
        path, tests, vals = wit
        doubt = path_doubt(fn, flow.g, path)
        if doubt:
            undecided(fn, w["node"], doubt)
        if locks.callers(fn):
            undecided(fn, w["node"], "%s() blocks in wait() on %s without having tested %s in this hold of %s, but it is called from %s: the test may be there"
                      % (fn.name, w["cv"], text, MUTEX, locks.callers(fn)[0][0].qname))
        if tests:
            seen = "the only tests are " + ", ".join("`%s` is %s (line %s, %s %s)" % (dtable.describe(c)[:40], "true" if t else "false", c.get("l"), MUTEX,
                                                                                     "held" if h else "not held") for c, t, h in tests[-3:])
        else:
            seen = "there is no test of the condition"
        cex = ", ".join("%s=%d" % (a, 1 if b else 0) for a, b in zip(atoms, vals[0]))
        ck.violation("NO-BARE-WAIT", fn.qname, "%s:%s:unchecked" % (fn.name, w["cv"]),
                     "%s() blocks in %s.wait() without having found the awaited condition %s false since %s was last acquired: on the path to the "
                     "wait %s. Counterexample: the state %s (condition already true, e.g. the writes that make it true and their notify on %s "
                     "happened before this call) reaches the wait; no further notification is due, the waiter sleeps forever although it should "
                     "return at once (lost wake-up). wait(lock, pred) and `while (!pred) wait(lock)` test before blocking; `do wait(lock); while (!pred)` does not"
                     % (fn.name, w["cv"], text, MUTEX, seen, cex, w["cv"]), fn.nloc(w["node"]))
    for w in waits:
        if w["pred"] is None and w["node"]["callee"]["name"] == "wait" and w["fn"].cfg and w["cv"] is not None:
            ck.guarded(lambda w=w: wait_checked(w))

    # ---- join with the mutex released; every thread joined exactly once
    def join_rule(fn, joins):
        """joins: [(node of the join call, function that holds it, (site fn, node at whose evaluation it runs))]"""
        for x, holder, (sfn, at) in joins:
            if locks.held(sfn, at) is not False:
                ck.violation("JOIN-UNLOCKED", fn.qname, fn.name + ":join", "threads are joined while mutex_ is held: the workers need it to leave", holder.nloc(x))
                return
        bad = None
        for n in (0, 1, 3):
            got = joined_threads(tu, fn, n)
            if any(not isinstance(i, int) or isinstance(i, bool) for i in got):
                undecided(fn, joins[0][0], "which thread is joined is not understood (%d threads)" % n)
            if sorted(got) != list(range(n)) and bad is None:
                bad = (n, got)
        if bad:
            ck.violation("JOIN-UNLOCKED", fn.qname, fn.name + ":join-all", "not every worker thread is joined exactly once: with %d threads the threads joined are %s"
                         % (bad[0], bad[1]), holder.nloc(joins[0][0]))
        else:
            ck.ok("JOIN-UNLOCKED", fn.qname, "every thread joined exactly once (evaluated for 0, 1 and 3 threads) with mutex_ released")

    def is_join(x):
        return "callee" in x and x.get("member_call") and x["callee"]["name"] == "join" and "thread" in (x["callee"].get("record") or "")
    joins_in = {}
    for fn in fns:
        for x in fn.nodes():
            if is_join(x):
                joins_in.setdefault(fn.did, (fn, []))[1].append((x, fn, (fn, x)))

    def lambda_joins(lam):
        sfn, lx = lambda_site(fns, lam)
        if sfn is None:
            undecided(lam, None, "threads are joined in a lambda whose creation was not found in a member of the pool")
        kind, sites = lambda_evaluations(locks, fns, lam)
        if kind != "at" or len(sites) != 1:
            undecided(lam, None, "threads are joined in a lambda; where it runs is not understood")
        for x in lam.nodes():
            if is_join(x):
                joins_in.setdefault(sfn.did, (sfn, []))[1].append((x, lam, sites[0]))
    for lam in lambdas:
        if any(is_join(x) for x in lam.nodes()):
            ck.guarded(lambda lam=lam: lambda_joins(lam))
    for did, (fn, joins) in joins_in.items():
        ck.guarded(lambda fn=fn, joins=joins: join_rule(fn, joins))

    ck.floor("LOCKSET", 6)
    ck.floor("NO-BARE-WAIT", 3)
    # WRITE-NOTIFY / NOTIFY-KIND: floors per function (the destructor may delegate to terminate(); then its own instances vanish)
    ck.floor("WRITE-NOTIFY", 5)
    ck.floor("NOTIFY-KIND", 4)
    ck.floor("TAKE-ATOMIC", 1)
    ck.floor("RUN-UNLOCKED", 1)
    ck.floor("BUSY-PAIR", 1)
    ck.floor("EXCEPTION-BALANCED", 1)
    ck.floor("JOB-LIFETIME", 1)
    ck.floor("JOIN-UNLOCKED", 1)
    ck.floor("WAIT-RETURN", 2)

    def per_function_floors():
        if ck.violations or ck.known_hits:
            return
        for rule, need in (("WRITE-NOTIFY", {"worker": 2, "enqueue": 1, "terminate": 2}), ("NOTIFY-KIND", {"worker": 1, "enqueue": 1, "terminate": 2}),
                           ("WAIT-RETURN", {"loop_until_empty": 1, "loop_until_terminate": 1})):
            for name, n in need.items():
                q = TP + "::" + name
                got = sum(1 for r, where, ok_, d in ck.instances if r == rule and (where == q or where.startswith(q + ":") or where.startswith(q + " ")))
                ck.require(got >= n, "rule %s matched %d instances in %s(), floor confirmed by hand is %d (anchor vanished)" % (rule, got, name, n))
    ck.guarded(per_function_floors)
