// C05 witness: the five public sequential multiway-merge entry points; every
// internal variant is instantiated through the run-time algorithm switch.
#include <tlx/algorithm/merge_advance.hpp>
#include <tlx/algorithm/multiway_merge.hpp>

#include <cstddef>
#include <functional>
#include <string>
#include <utility>
#include <vector>

#ifndef WITNESS_T
#define WITNESS_T int
#endif
using T = WITNESS_T;
using It = std::vector<T>::iterator;
using Seqs = std::vector<std::pair<It, It> >;
#ifdef WITNESS_GREATER
using Cmp = std::greater<T>;
#else
using Cmp = std::less<T>;
#endif

It witness_c05(Seqs& seqs, It target, std::ptrdiff_t size, tlx::MultiwayMergeAlgorithm a) {
    It t = tlx::multiway_merge(seqs.begin(), seqs.end(), target, size, Cmp(), a);
    t = tlx::stable_multiway_merge(seqs.begin(), seqs.end(), t, size, Cmp(), a);
    t = tlx::multiway_merge_sentinels(seqs.begin(), seqs.end(), t, size, Cmp(), a);
    t = tlx::stable_multiway_merge_sentinels(seqs.begin(), seqs.end(), t, size, Cmp(), a);
    return t;
}

It witness_c05_merge2(It& b1, It e1, It& b2, It e2, It target, std::ptrdiff_t n) {
    It t = tlx::merge_advance_usual(b1, e1, b2, e2, target, n, Cmp());
    t = tlx::merge_advance_movc(b1, e1, b2, e2, t, n, Cmp());
    return tlx::merge_advance(b1, e1, b2, e2, t, n, Cmp());
}
