// C17 witness: LruCacheSet / LruCacheMap / SplayTree (set and multiset) via public members.
#include <tlx/container/lru_cache.hpp>
#include <tlx/container/splay_tree.hpp>

#include <cstddef>
#include <string>
#include <vector>

#ifndef WITNESS_K
#define WITNESS_K int
#endif
using K = WITNESS_K;

std::size_t witness_c17_lru(const K& k, const std::string& v) {
    tlx::LruCacheSet<K> s;
    tlx::LruCacheMap<K, std::string> m;
    s.put(k); s.touch(k); s.touch_if_exists(k); s.erase(k); s.erase_if_exists(k);
    m.put(k, v); m.touch(k); m.touch_if_exists(k); m.erase(k); m.erase_if_exists(k);
    std::size_t r = m.get(k).size() + m.get_touch(k).size() + (s.exists(k) ? 1 : 0) + (m.exists(k) ? 1 : 0) + s.size() + m.size();
    K a = s.pop();
    auto b = m.pop();
    s.clear(); m.clear();
    return r + (a == b.first ? 1 : 0);
}

template <typename T>
std::size_t drive_splay(T& t, const K& k, std::vector<K>& out) {
    t.insert(k);
    std::size_t r = (t.exists(k) ? 1 : 0) + (t.find(k) != nullptr ? 1 : 0) + t.size() + (t.empty() ? 1 : 0) + (t.check() ? 1 : 0);
    t.traverse_preorder([&out](const K& x) { out.push_back(x); });
    t.erase(k);
    t.erase(t.find(k));
    t.clear();
    return r;
}

std::size_t witness_c17_splay(const K& k, std::vector<K>& out) {
    tlx::splay_set<K> a;
    tlx::splay_multiset<K> b;
    return drive_splay(a, k, out) + drive_splay(b, k, out);
}
