// C01/C02 witness: the four B+ tree front ends, each with the default traits and with small,
// asymmetric node capacities (leaf != inner), both in-node search strategies (the binary search
// branch is selected by sizeof(node) > binsearch_threshold), less and greater key orders.
#include <tlx/container/btree_map.hpp>
#include <tlx/container/btree_multimap.hpp>
#include <tlx/container/btree_multiset.hpp>
#include <tlx/container/btree_set.hpp>

#include <cstddef>
#include <functional>
#include <string>
#include <utility>
#include <vector>

#ifndef WITNESS_K
#define WITNESS_K int
#endif
#ifndef WITNESS_LEAF
#define WITNESS_LEAF 8
#endif
#ifndef WITNESS_INNER
#define WITNESS_INNER 5
#endif
#ifndef WITNESS_BINSEARCH
#define WITNESS_BINSEARCH 256
#endif
using K = WITNESS_K;

template <typename Key>
struct small_traits {
    static const bool self_verify = false;
    static const bool debug = false;
    static const int leaf_slots = WITNESS_LEAF;
    static const int inner_slots = WITNESS_INNER;
    static const size_t binsearch_threshold = WITNESS_BINSEARCH;
};

template <typename T, typename V>
std::size_t drive(T& t, const T& other, const V& v, const K& k, std::vector<V>& sorted) {
    const T& ct = t;
    std::size_t r = 0;
    t.insert(v);
    t.insert(t.begin(), v);
    t.insert(sorted.begin(), sorted.end());
    r += t.exists(k) + t.count(k) + t.size() + t.empty() + t.max_size();
    r += (t.find(k) != t.end()) + (ct.find(k) != ct.end());
    r += (t.lower_bound(k) != t.end()) + (ct.lower_bound(k) != ct.end());
    r += (t.upper_bound(k) != t.end()) + (ct.upper_bound(k) != ct.end());
    r += (t.equal_range(k).first != t.end()) + (ct.equal_range(k).first != ct.end());
    for (auto i = t.begin(); i != t.end(); ++i) r++;
    for (auto i = t.end(); i != t.begin(); --i) r++;
    for (auto i = t.begin(); i != t.end(); i++) r++;
    for (auto i = t.end(); i != t.begin(); i--) r++;
    for (auto i = ct.begin(); i != ct.end(); ++i) r++;
    for (auto i = ct.end(); i != ct.begin(); --i) r++;
    for (auto i = ct.begin(); i != ct.end(); i++) r++;
    for (auto i = ct.end(); i != ct.begin(); i--) r++;
    for (auto i = t.rbegin(); i != t.rend(); ++i) r++;
    for (auto i = t.rend(); i != t.rbegin(); --i) r++;
    for (auto i = t.rbegin(); i != t.rend(); i++) r++;
    for (auto i = t.rend(); i != t.rbegin(); i--) r++;
    for (auto i = ct.rbegin(); i != ct.rend(); ++i) r++;
    for (auto i = ct.rend(); i != ct.rbegin(); --i) r++;
    for (auto i = ct.rbegin(); i != ct.rend(); i++) r++;
    for (auto i = ct.rend(); i != ct.rbegin(); i--) r++;
    r += t.erase_one(k);
    r += t.erase(k);
    t.erase(t.begin());
    r += (t == other) + (t != other) + (t < other) + (t > other) + (t <= other) + (t >= other);
    T c(t);
    c = other;
    c.swap(t);
    c.clear();
    typename T::btree_impl raw1, raw2;   // the tree's own swap (the front ends use std::swap on the tree)
    raw1.swap(raw2);
    T b;
    b.bulk_load(sorted.begin(), sorted.end());
    b.verify();
    r += b.get_stats().size + (b.key_comp()(k, k) ? 1 : 0);
    (void)b.value_comp();
    (void)b.get_allocator();
    return r;
}

template <typename Cmp, typename Traits>
std::size_t drive_all(const K& k, std::vector<K>& ks, std::vector<std::pair<K, std::string>>& ps) {
    tlx::btree_set<K, Cmp, Traits> s, s2;
    tlx::btree_multiset<K, Cmp, Traits> ms, ms2;
    tlx::btree_map<K, std::string, Cmp, Traits> m, m2;
    tlx::btree_multimap<K, std::string, Cmp, Traits> mm, mm2;
    std::size_t r = drive(s, s2, k, k, ks) + drive(ms, ms2, k, k, ks);
    r += drive(m, m2, ps[0], k, ps) + drive(mm, mm2, ps[0], k, ps);
    r += m[k].size();
    m.insert2(k, std::string());
    m.insert2(m.begin(), k, std::string());
    mm.insert2(k, std::string());
    mm.insert2(mm.begin(), k, std::string());
    return r;
}

std::size_t witness_c01(const K& k, std::vector<K>& ks, std::vector<std::pair<K, std::string>>& ps) {
    return drive_all<std::less<K>, tlx::btree_default_traits<K, K>>(k, ks, ps) +
           drive_all<std::greater<K>, small_traits<K>>(k, ks, ps);
}
