// C12 witness: every special member / modifier of CountingPtr through the public API.
#include <tlx/counting_ptr.hpp>

#include <utility>

struct Base : public tlx::ReferenceCounter {
    int v = 0;
    virtual ~Base() { }
};
struct Derived : public Base { int w = 1; };

using P = tlx::CountingPtr<Base>;
using D = tlx::CountingPtr<Derived>;

int witness_c12(Base* raw, P& x, P& y, D& d) {
    P a;                       // default
    P b(nullptr);              // nullptr
    P c(raw);                  // raw pointer
    P e(x);                    // copy
    P f(d);                    // converting copy
    P g(std::move(y));         // move
    P h(std::move(d));         // converting move
    a = x;                     // copy assign
    b = d;                     // converting copy assign
    c = std::move(x);          // move assign
    e = std::move(d);          // converting move assign
    f.reset();
    g.swap(h);
    swap(g, h);
    h.unify();
    P m = tlx::make_counting<Base>();
    return (a.valid() ? 1 : 0) + (b.empty() ? 1 : 0) + (c.unique() ? 1 : 0) + int(m.use_count()) +
           (m.get() != nullptr) + (*m).v + m->v + (m ? 1 : 0);
}
