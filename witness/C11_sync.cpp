// C11 witness: Semaphore and both thread barriers through their public members.
#include <tlx/semaphore.hpp>
#include <tlx/thread_barrier_mutex.hpp>
#include <tlx/thread_barrier_spin.hpp>

#include <cstddef>

std::size_t witness_c11(tlx::Semaphore& s, tlx::ThreadBarrierMutex& m, tlx::ThreadBarrierSpin& p, int& flag) {
    std::size_t r = s.signal() + s.signal(3) + s.wait() + s.wait(2, 1) + (s.try_acquire(1, 0) ? 1 : 0) + s.value();
    m.wait();
    m.wait([&flag]() { flag = 1; });
    m.wait_yield([&flag]() { flag = 2; });
    p.wait();
    p.wait([&flag]() { flag = 3; });
    p.wait_yield();
    p.wait_yield([&flag]() { flag = 4; });
    return r + m.step() + p.step();
}
