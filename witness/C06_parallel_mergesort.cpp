// C06 witness: both public parallel mergesort entry points (non-trivially destructible element type).
#include <tlx/sort/parallel_mergesort.hpp>

#include <functional>
#include <string>
#include <vector>

#ifndef WITNESS_T
#define WITNESS_T std::string
#endif
using T = WITNESS_T;

void witness_c06(std::vector<T>& v, size_t threads, tlx::MultiwayMergeSplittingAlgorithm a) {
    tlx::parallel_mergesort(v.begin(), v.end(), std::less<T>(), threads, a);
    tlx::stable_parallel_mergesort(v.begin(), v.end(), std::less<T>(), threads, a);
}
