// C15 witness: instantiates the three sorting-network families through their
// public size-dispatching entry points (int*, default and custom comparator).
#include <tlx/sort/networks/best.hpp>
#include <tlx/sort/networks/bose_nelson.hpp>
#include <tlx/sort/networks/bose_nelson_parameter.hpp>

#include <functional>
#include <string>
#include <vector>

void witness_c15_int(int* b, int* e) {
    tlx::sort_networks::best::sort(b, e);
    tlx::sort_networks::bose_nelson::sort(b, e);
    tlx::sort_networks::bose_nelson_parameter::sort(b, e);
}
// every size-specific network is public API: call each directly
void witness_c15_direct(int* b) {
    tlx::sort_networks::best::sort2(b, tlx::sort_networks::CS_IfSwap<std::less<int>>(std::less<int>()));
    tlx::sort_networks::best::sort3(b, tlx::sort_networks::CS_IfSwap<std::less<int>>(std::less<int>()));
    tlx::sort_networks::best::sort4(b, tlx::sort_networks::CS_IfSwap<std::less<int>>(std::less<int>()));
    tlx::sort_networks::best::sort5(b, tlx::sort_networks::CS_IfSwap<std::less<int>>(std::less<int>()));
    tlx::sort_networks::best::sort6(b, tlx::sort_networks::CS_IfSwap<std::less<int>>(std::less<int>()));
    tlx::sort_networks::best::sort7(b, tlx::sort_networks::CS_IfSwap<std::less<int>>(std::less<int>()));
    tlx::sort_networks::best::sort8(b, tlx::sort_networks::CS_IfSwap<std::less<int>>(std::less<int>()));
    tlx::sort_networks::best::sort9(b, tlx::sort_networks::CS_IfSwap<std::less<int>>(std::less<int>()));
    tlx::sort_networks::best::sort10(b, tlx::sort_networks::CS_IfSwap<std::less<int>>(std::less<int>()));
    tlx::sort_networks::best::sort11(b, tlx::sort_networks::CS_IfSwap<std::less<int>>(std::less<int>()));
    tlx::sort_networks::best::sort12(b, tlx::sort_networks::CS_IfSwap<std::less<int>>(std::less<int>()));
    tlx::sort_networks::best::sort13(b, tlx::sort_networks::CS_IfSwap<std::less<int>>(std::less<int>()));
    tlx::sort_networks::best::sort14(b, tlx::sort_networks::CS_IfSwap<std::less<int>>(std::less<int>()));
    tlx::sort_networks::best::sort15(b, tlx::sort_networks::CS_IfSwap<std::less<int>>(std::less<int>()));
    tlx::sort_networks::best::sort16(b, tlx::sort_networks::CS_IfSwap<std::less<int>>(std::less<int>()));
    tlx::sort_networks::bose_nelson::sort2(b, tlx::sort_networks::CS_IfSwap<std::less<int>>(std::less<int>()));
    tlx::sort_networks::bose_nelson::sort3(b, tlx::sort_networks::CS_IfSwap<std::less<int>>(std::less<int>()));
    tlx::sort_networks::bose_nelson::sort4(b, tlx::sort_networks::CS_IfSwap<std::less<int>>(std::less<int>()));
    tlx::sort_networks::bose_nelson::sort5(b, tlx::sort_networks::CS_IfSwap<std::less<int>>(std::less<int>()));
    tlx::sort_networks::bose_nelson::sort6(b, tlx::sort_networks::CS_IfSwap<std::less<int>>(std::less<int>()));
    tlx::sort_networks::bose_nelson::sort7(b, tlx::sort_networks::CS_IfSwap<std::less<int>>(std::less<int>()));
    tlx::sort_networks::bose_nelson::sort8(b, tlx::sort_networks::CS_IfSwap<std::less<int>>(std::less<int>()));
    tlx::sort_networks::bose_nelson::sort9(b, tlx::sort_networks::CS_IfSwap<std::less<int>>(std::less<int>()));
    tlx::sort_networks::bose_nelson::sort10(b, tlx::sort_networks::CS_IfSwap<std::less<int>>(std::less<int>()));
    tlx::sort_networks::bose_nelson::sort11(b, tlx::sort_networks::CS_IfSwap<std::less<int>>(std::less<int>()));
    tlx::sort_networks::bose_nelson::sort12(b, tlx::sort_networks::CS_IfSwap<std::less<int>>(std::less<int>()));
    tlx::sort_networks::bose_nelson::sort13(b, tlx::sort_networks::CS_IfSwap<std::less<int>>(std::less<int>()));
    tlx::sort_networks::bose_nelson::sort14(b, tlx::sort_networks::CS_IfSwap<std::less<int>>(std::less<int>()));
    tlx::sort_networks::bose_nelson::sort15(b, tlx::sort_networks::CS_IfSwap<std::less<int>>(std::less<int>()));
    tlx::sort_networks::bose_nelson::sort16(b, tlx::sort_networks::CS_IfSwap<std::less<int>>(std::less<int>()));
    tlx::sort_networks::bose_nelson_parameter::sort2(b[0], b[1], tlx::sort_networks::CS_IfSwap<std::less<int>>(std::less<int>()));
    tlx::sort_networks::bose_nelson_parameter::sort3(b[0], b[1], b[2], tlx::sort_networks::CS_IfSwap<std::less<int>>(std::less<int>()));
    tlx::sort_networks::bose_nelson_parameter::sort4(b[0], b[1], b[2], b[3], tlx::sort_networks::CS_IfSwap<std::less<int>>(std::less<int>()));
    tlx::sort_networks::bose_nelson_parameter::sort5(b[0], b[1], b[2], b[3], b[4], tlx::sort_networks::CS_IfSwap<std::less<int>>(std::less<int>()));
    tlx::sort_networks::bose_nelson_parameter::sort6(b[0], b[1], b[2], b[3], b[4], b[5], tlx::sort_networks::CS_IfSwap<std::less<int>>(std::less<int>()));
    tlx::sort_networks::bose_nelson_parameter::sort7(b[0], b[1], b[2], b[3], b[4], b[5], b[6], tlx::sort_networks::CS_IfSwap<std::less<int>>(std::less<int>()));
    tlx::sort_networks::bose_nelson_parameter::sort8(b[0], b[1], b[2], b[3], b[4], b[5], b[6], b[7], tlx::sort_networks::CS_IfSwap<std::less<int>>(std::less<int>()));
    tlx::sort_networks::bose_nelson_parameter::sort9(b[0], b[1], b[2], b[3], b[4], b[5], b[6], b[7], b[8], tlx::sort_networks::CS_IfSwap<std::less<int>>(std::less<int>()));
    tlx::sort_networks::bose_nelson_parameter::sort10(b[0], b[1], b[2], b[3], b[4], b[5], b[6], b[7], b[8], b[9], tlx::sort_networks::CS_IfSwap<std::less<int>>(std::less<int>()));
    tlx::sort_networks::bose_nelson_parameter::sort11(b[0], b[1], b[2], b[3], b[4], b[5], b[6], b[7], b[8], b[9], b[10], tlx::sort_networks::CS_IfSwap<std::less<int>>(std::less<int>()));
    tlx::sort_networks::bose_nelson_parameter::sort12(b[0], b[1], b[2], b[3], b[4], b[5], b[6], b[7], b[8], b[9], b[10], b[11], tlx::sort_networks::CS_IfSwap<std::less<int>>(std::less<int>()));
    tlx::sort_networks::bose_nelson_parameter::sort13(b[0], b[1], b[2], b[3], b[4], b[5], b[6], b[7], b[8], b[9], b[10], b[11], b[12], tlx::sort_networks::CS_IfSwap<std::less<int>>(std::less<int>()));
    tlx::sort_networks::bose_nelson_parameter::sort14(b[0], b[1], b[2], b[3], b[4], b[5], b[6], b[7], b[8], b[9], b[10], b[11], b[12], b[13], tlx::sort_networks::CS_IfSwap<std::less<int>>(std::less<int>()));
    tlx::sort_networks::bose_nelson_parameter::sort15(b[0], b[1], b[2], b[3], b[4], b[5], b[6], b[7], b[8], b[9], b[10], b[11], b[12], b[13], b[14], tlx::sort_networks::CS_IfSwap<std::less<int>>(std::less<int>()));
    tlx::sort_networks::bose_nelson_parameter::sort16(b[0], b[1], b[2], b[3], b[4], b[5], b[6], b[7], b[8], b[9], b[10], b[11], b[12], b[13], b[14], b[15], tlx::sort_networks::CS_IfSwap<std::less<int>>(std::less<int>()));
}
#ifdef WITNESS_THOROUGH
void witness_c15_str(std::vector<std::string>& v) {
    tlx::sort_networks::best::sort(v.begin(), v.end(), std::greater<std::string>());
    tlx::sort_networks::bose_nelson::sort(v.begin(), v.end(), std::greater<std::string>());
    tlx::sort_networks::bose_nelson_parameter::sort(v.begin(), v.end(), std::greater<std::string>());
}
void witness_c15_direct_str(std::vector<std::string>& v) {
    tlx::sort_networks::best::sort2(v.begin(), tlx::sort_networks::CS_IfSwap<std::greater<std::string>>(std::greater<std::string>()));
    tlx::sort_networks::best::sort3(v.begin(), tlx::sort_networks::CS_IfSwap<std::greater<std::string>>(std::greater<std::string>()));
    tlx::sort_networks::best::sort4(v.begin(), tlx::sort_networks::CS_IfSwap<std::greater<std::string>>(std::greater<std::string>()));
    tlx::sort_networks::best::sort5(v.begin(), tlx::sort_networks::CS_IfSwap<std::greater<std::string>>(std::greater<std::string>()));
    tlx::sort_networks::best::sort6(v.begin(), tlx::sort_networks::CS_IfSwap<std::greater<std::string>>(std::greater<std::string>()));
    tlx::sort_networks::best::sort7(v.begin(), tlx::sort_networks::CS_IfSwap<std::greater<std::string>>(std::greater<std::string>()));
    tlx::sort_networks::best::sort8(v.begin(), tlx::sort_networks::CS_IfSwap<std::greater<std::string>>(std::greater<std::string>()));
    tlx::sort_networks::best::sort9(v.begin(), tlx::sort_networks::CS_IfSwap<std::greater<std::string>>(std::greater<std::string>()));
    tlx::sort_networks::best::sort10(v.begin(), tlx::sort_networks::CS_IfSwap<std::greater<std::string>>(std::greater<std::string>()));
    tlx::sort_networks::best::sort11(v.begin(), tlx::sort_networks::CS_IfSwap<std::greater<std::string>>(std::greater<std::string>()));
    tlx::sort_networks::best::sort12(v.begin(), tlx::sort_networks::CS_IfSwap<std::greater<std::string>>(std::greater<std::string>()));
    tlx::sort_networks::best::sort13(v.begin(), tlx::sort_networks::CS_IfSwap<std::greater<std::string>>(std::greater<std::string>()));
    tlx::sort_networks::best::sort14(v.begin(), tlx::sort_networks::CS_IfSwap<std::greater<std::string>>(std::greater<std::string>()));
    tlx::sort_networks::best::sort15(v.begin(), tlx::sort_networks::CS_IfSwap<std::greater<std::string>>(std::greater<std::string>()));
    tlx::sort_networks::best::sort16(v.begin(), tlx::sort_networks::CS_IfSwap<std::greater<std::string>>(std::greater<std::string>()));
    tlx::sort_networks::bose_nelson::sort2(v.begin(), tlx::sort_networks::CS_IfSwap<std::greater<std::string>>(std::greater<std::string>()));
    tlx::sort_networks::bose_nelson::sort3(v.begin(), tlx::sort_networks::CS_IfSwap<std::greater<std::string>>(std::greater<std::string>()));
    tlx::sort_networks::bose_nelson::sort4(v.begin(), tlx::sort_networks::CS_IfSwap<std::greater<std::string>>(std::greater<std::string>()));
    tlx::sort_networks::bose_nelson::sort5(v.begin(), tlx::sort_networks::CS_IfSwap<std::greater<std::string>>(std::greater<std::string>()));
    tlx::sort_networks::bose_nelson::sort6(v.begin(), tlx::sort_networks::CS_IfSwap<std::greater<std::string>>(std::greater<std::string>()));
    tlx::sort_networks::bose_nelson::sort7(v.begin(), tlx::sort_networks::CS_IfSwap<std::greater<std::string>>(std::greater<std::string>()));
    tlx::sort_networks::bose_nelson::sort8(v.begin(), tlx::sort_networks::CS_IfSwap<std::greater<std::string>>(std::greater<std::string>()));
    tlx::sort_networks::bose_nelson::sort9(v.begin(), tlx::sort_networks::CS_IfSwap<std::greater<std::string>>(std::greater<std::string>()));
    tlx::sort_networks::bose_nelson::sort10(v.begin(), tlx::sort_networks::CS_IfSwap<std::greater<std::string>>(std::greater<std::string>()));
    tlx::sort_networks::bose_nelson::sort11(v.begin(), tlx::sort_networks::CS_IfSwap<std::greater<std::string>>(std::greater<std::string>()));
    tlx::sort_networks::bose_nelson::sort12(v.begin(), tlx::sort_networks::CS_IfSwap<std::greater<std::string>>(std::greater<std::string>()));
    tlx::sort_networks::bose_nelson::sort13(v.begin(), tlx::sort_networks::CS_IfSwap<std::greater<std::string>>(std::greater<std::string>()));
    tlx::sort_networks::bose_nelson::sort14(v.begin(), tlx::sort_networks::CS_IfSwap<std::greater<std::string>>(std::greater<std::string>()));
    tlx::sort_networks::bose_nelson::sort15(v.begin(), tlx::sort_networks::CS_IfSwap<std::greater<std::string>>(std::greater<std::string>()));
    tlx::sort_networks::bose_nelson::sort16(v.begin(), tlx::sort_networks::CS_IfSwap<std::greater<std::string>>(std::greater<std::string>()));
    tlx::sort_networks::bose_nelson_parameter::sort2(v[0], v[1], tlx::sort_networks::CS_IfSwap<std::greater<std::string>>(std::greater<std::string>()));
    tlx::sort_networks::bose_nelson_parameter::sort3(v[0], v[1], v[2], tlx::sort_networks::CS_IfSwap<std::greater<std::string>>(std::greater<std::string>()));
    tlx::sort_networks::bose_nelson_parameter::sort4(v[0], v[1], v[2], v[3], tlx::sort_networks::CS_IfSwap<std::greater<std::string>>(std::greater<std::string>()));
    tlx::sort_networks::bose_nelson_parameter::sort5(v[0], v[1], v[2], v[3], v[4], tlx::sort_networks::CS_IfSwap<std::greater<std::string>>(std::greater<std::string>()));
    tlx::sort_networks::bose_nelson_parameter::sort6(v[0], v[1], v[2], v[3], v[4], v[5], tlx::sort_networks::CS_IfSwap<std::greater<std::string>>(std::greater<std::string>()));
    tlx::sort_networks::bose_nelson_parameter::sort7(v[0], v[1], v[2], v[3], v[4], v[5], v[6], tlx::sort_networks::CS_IfSwap<std::greater<std::string>>(std::greater<std::string>()));
    tlx::sort_networks::bose_nelson_parameter::sort8(v[0], v[1], v[2], v[3], v[4], v[5], v[6], v[7], tlx::sort_networks::CS_IfSwap<std::greater<std::string>>(std::greater<std::string>()));
    tlx::sort_networks::bose_nelson_parameter::sort9(v[0], v[1], v[2], v[3], v[4], v[5], v[6], v[7], v[8], tlx::sort_networks::CS_IfSwap<std::greater<std::string>>(std::greater<std::string>()));
    tlx::sort_networks::bose_nelson_parameter::sort10(v[0], v[1], v[2], v[3], v[4], v[5], v[6], v[7], v[8], v[9], tlx::sort_networks::CS_IfSwap<std::greater<std::string>>(std::greater<std::string>()));
    tlx::sort_networks::bose_nelson_parameter::sort11(v[0], v[1], v[2], v[3], v[4], v[5], v[6], v[7], v[8], v[9], v[10], tlx::sort_networks::CS_IfSwap<std::greater<std::string>>(std::greater<std::string>()));
    tlx::sort_networks::bose_nelson_parameter::sort12(v[0], v[1], v[2], v[3], v[4], v[5], v[6], v[7], v[8], v[9], v[10], v[11], tlx::sort_networks::CS_IfSwap<std::greater<std::string>>(std::greater<std::string>()));
    tlx::sort_networks::bose_nelson_parameter::sort13(v[0], v[1], v[2], v[3], v[4], v[5], v[6], v[7], v[8], v[9], v[10], v[11], v[12], tlx::sort_networks::CS_IfSwap<std::greater<std::string>>(std::greater<std::string>()));
    tlx::sort_networks::bose_nelson_parameter::sort14(v[0], v[1], v[2], v[3], v[4], v[5], v[6], v[7], v[8], v[9], v[10], v[11], v[12], v[13], tlx::sort_networks::CS_IfSwap<std::greater<std::string>>(std::greater<std::string>()));
    tlx::sort_networks::bose_nelson_parameter::sort15(v[0], v[1], v[2], v[3], v[4], v[5], v[6], v[7], v[8], v[9], v[10], v[11], v[12], v[13], v[14], tlx::sort_networks::CS_IfSwap<std::greater<std::string>>(std::greater<std::string>()));
    tlx::sort_networks::bose_nelson_parameter::sort16(v[0], v[1], v[2], v[3], v[4], v[5], v[6], v[7], v[8], v[9], v[10], v[11], v[12], v[13], v[14], v[15], tlx::sort_networks::CS_IfSwap<std::greater<std::string>>(std::greater<std::string>()));
}
#endif
