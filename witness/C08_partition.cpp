// C08 witness: multisequence_partition and multisequence_selection via their public signatures.
#include <tlx/algorithm/multisequence_partition.hpp>
#include <tlx/algorithm/multisequence_selection.hpp>

#include <cstddef>
#include <functional>
#include <utility>
#include <vector>

#ifndef WITNESS_T
#define WITNESS_T int
#endif
using T = WITNESS_T;
using It = std::vector<T>::iterator;
using Seqs = std::vector<std::pair<It, It> >;

T witness_c08(Seqs& seqs, std::ptrdiff_t rank, std::vector<It>& offsets) {
    tlx::multisequence_partition(seqs.begin(), seqs.end(), rank, offsets.begin(), std::less<T>());
    std::ptrdiff_t off;
    return tlx::multisequence_selection<T>(seqs.begin(), seqs.end(), rank, off, std::less<T>());
}

// unsigned rank type and a non-default order (both are legal template arguments)
T witness_c08_unsigned(Seqs& seqs, std::size_t rank, std::vector<It>& offsets) {
    tlx::multisequence_partition(seqs.begin(), seqs.end(), rank, offsets.begin(), std::greater<T>());
    std::size_t off;
    return tlx::multisequence_selection<T>(seqs.begin(), seqs.end(), rank, off, std::greater<T>());
}
