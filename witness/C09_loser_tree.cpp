// C09 witness: all eight loser-tree classes through their public members,
// plus the two size switches at the threshold.
#include <tlx/container/loser_tree.hpp>

#include <cstddef>
#include <functional>
#include <string>

template <typename LT, typename V>
unsigned drive(LT& lt, const V* k) {
    lt.insert_start(k, 0, false);
    lt.init();
    unsigned s = lt.min_source();
    lt.delete_min_insert(k, false);
    return s;
}

struct S16 { std::size_t a, b; };
struct S24 { std::size_t a, b, c; };
struct CmpS16 { bool operator()(const S16& x, const S16& y) const { return x.a < y.a; } };
struct CmpS24 { bool operator()(const S24& x, const S24& y) const { return x.a < y.a; } };

#ifndef WITNESS_T
#define WITNESS_T int
#endif
using T = WITNESS_T;
using C = std::less<T>;

unsigned witness_c09(const T* k, const T& sentinel) {
    tlx::LoserTreeCopy<false, T, C> a(4);
    tlx::LoserTreeCopy<true, T, C> b(4);
    tlx::LoserTreePointer<false, T, C> c(4);
    tlx::LoserTreePointer<true, T, C> d(4);
    tlx::LoserTreeCopyUnguarded<false, T, C> e(4, sentinel);
    tlx::LoserTreeCopyUnguarded<true, T, C> f(4, sentinel);
    tlx::LoserTreePointerUnguarded<false, T, C> g(4, sentinel);
    tlx::LoserTreePointerUnguarded<true, T, C> h(4, sentinel);
    return drive(a, k) + drive(b, k) + drive(c, k) + drive(d, k) +
           drive(e, k) + drive(f, k) + drive(g, k) + drive(h, k);
}

unsigned witness_c09_switch(const S16* k16, const S24* k24) {
    tlx::LoserTree<false, S16, CmpS16> a(2);
    tlx::LoserTree<true, S24, CmpS24> b(2);
    tlx::LoserTreeUnguarded<false, S16, CmpS16> c(2, *k16);
    tlx::LoserTreeUnguarded<true, S24, CmpS24> d(2, *k24);
    return drive(a, k16) + drive(b, k24) + drive(c, k16) + drive(d, k24);
}
