// C04 witness: parallel string sort through the public entry points (with and without LCP output).
#include <tlx/sort/strings_parallel.hpp>

#include <cstddef>
#include <cstdint>
#include <string>
#include <vector>

void witness_c04(std::vector<const char*>& cs, std::vector<std::string>& ss, std::uint32_t* lcp) {
    tlx::sort_strings_parallel(cs, 0);
    tlx::sort_strings_parallel(ss, 0);
    tlx::sort_strings_parallel_lcp(cs, lcp, 0);
}
