// C04 witness: parallel string sort through the public entry points (with and without LCP output).
#include <tlx/sort/strings_parallel.hpp>

#include <cstddef>
#include <cstdint>
#include <string>
#include <vector>

void witness_c04(std::vector<const char*>& cs, std::vector<std::string>& ss, std::uint32_t* lcp) {
    tlx::sort_strings_parallel(cs, 0);
    tlx::sort_strings_parallel(ss, 0);
    tlx::sort_strings_parallel_lcp(cs, lcp, 0);
}

// the classifier classes that PS5ParametersDefault does not select (selectable through parallel_sample_sort_params<>):
// build / get_splitter / classify of each, so that their descent routines are in the IR (rule CLASSIFY-BUCKET).
#include <tlx/sort/strings/sample_sort_tools.hpp>
#include <tlx/sort/strings/string_set.hpp>

void witness_c04_classifiers(const tlx::sort_strings_detail::UCharStringSet& ss, std::uint64_t* samples, std::size_t n,
                             unsigned char* splitter_lcp, std::uint16_t* bktout) {
    tlx::sort_strings_detail::SSClassifyTreeUnrollInterleave<std::uint64_t, 5> a;
    a.build(samples, n, splitter_lcp);
    a.classify(ss, ss.begin(), ss.end(), bktout, 0);
    (void)a.get_splitter(0);
    // (SSClassifyEqualUnroll is not instantiated: its get_splitter(i) reads pre_to_levelorder(i) where the bucket numbering of its own
    //  find_bkt() needs pre_to_levelorder(i + 1) - get_splitter(0) evaluates ctz(0).  Reported as a defect of the unchanged tree;
    //  add it here together with the fix.)
    tlx::sort_strings_detail::SSClassifyTreeCalcUnrollInterleave<std::uint64_t, 3> c;
    c.build(samples, n, splitter_lcp);
    c.classify(ss, ss.begin(), ss.end(), bktout, 0);
    (void)c.get_splitter(0);
}
