// C03 witness: all public sort_strings / sort_strings_lcp overloads and every selectable detail sorter,
// for the four string-set representations, with and without LCP output.
#include <tlx/sort/strings.hpp>
#include <tlx/sort/strings/insertion_sort.hpp>
#include <tlx/sort/strings/multikey_quicksort.hpp>
#include <tlx/sort/strings/radix_sort.hpp>

#include <cstdint>
#include <memory>
#include <string>
#include <vector>

using namespace tlx::sort_strings_detail;

template <typename Ptr>
void all_sorters(const Ptr& p, size_t memory) {
    insertion_sort(p, 0, memory);
    multikey_quicksort(p, 0, memory);
    radixsort_CE0(p, 0, memory);
    radixsort_CE2(p, 0, memory);
    radixsort_CE3(p, 0, memory);
    radixsort_CI2(p, 0, memory);
    radixsort_CI3(p, 0, memory);
}

template <typename Set>
void both(const Set& ss, std::uint32_t* lcp, size_t memory) {
    all_sorters(StringPtr<Set>(ss), memory);
    all_sorters(StringLcpPtr<Set, std::uint32_t>(ss, lcp), memory);
}

void witness_c03_detail(std::vector<unsigned char*>& u, std::vector<const unsigned char*>& cu, std::vector<std::string>& s,
                        std::vector<std::unique_ptr<std::string>>& up, const std::string& text, std::uint32_t* lcp, size_t memory) {
    both(UCharStringSet(u.data(), u.data() + u.size()), lcp, memory);
    both(CUCharStringSet(cu.data(), cu.data() + cu.size()), lcp, memory);
    both(StdStringSet(s.data(), s.data() + s.size()), lcp, memory);
    both(UPtrStdStringSet(up.data(), up.data() + up.size()), lcp, memory);
    std::vector<StringSuffixSet::String> sa;
    both(StringSuffixSet::Initialize(text, sa), lcp, memory);
}

void witness_c03_public(std::vector<char*>& c, std::vector<unsigned char*>& u, std::vector<const char*>& cc,
                        std::vector<const unsigned char*>& cu, std::vector<std::string>& s, std::uint32_t* lcp, size_t memory) {
    tlx::sort_strings(c.data(), c.size(), memory);
    tlx::sort_strings(u.data(), u.size(), memory);
    tlx::sort_strings(cc.data(), cc.size(), memory);
    tlx::sort_strings(cu.data(), cu.size(), memory);
    tlx::sort_strings(c, memory);
    tlx::sort_strings(u, memory);
    tlx::sort_strings(cc, memory);
    tlx::sort_strings(cu, memory);
    tlx::sort_strings(s.data(), s.size(), memory);
    tlx::sort_strings(s, memory);
    tlx::sort_strings_lcp(c.data(), c.size(), lcp, memory);
    tlx::sort_strings_lcp(u.data(), u.size(), lcp, memory);
    tlx::sort_strings_lcp(cc.data(), cc.size(), lcp, memory);
    tlx::sort_strings_lcp(cu.data(), cu.size(), lcp, memory);
    tlx::sort_strings_lcp(c, lcp, memory);
    tlx::sort_strings_lcp(u, lcp, memory);
    tlx::sort_strings_lcp(cc, lcp, memory);
    tlx::sort_strings_lcp(cu, lcp, memory);
    tlx::sort_strings_lcp(s.data(), s.size(), lcp, memory);
    tlx::sort_strings_lcp(s, lcp, memory);
}
