// C20 witness: every integer helper for all six integer types, Aggregate<double> and <int>.
#include <tlx/math/abs_diff.hpp>
#include <tlx/math/aggregate.hpp>
#include <tlx/math/bswap.hpp>
#include <tlx/math/clz.hpp>
#include <tlx/math/ctz.hpp>
#include <tlx/math/div_ceil.hpp>
#include <tlx/math/ffs.hpp>
#include <tlx/math/integer_log2.hpp>
#include <tlx/math/is_power_of_two.hpp>
#include <tlx/math/popcount.hpp>
#include <tlx/math/rol.hpp>
#include <tlx/math/ror.hpp>
#include <tlx/math/round_to_power_of_two.hpp>
#include <tlx/math/round_up.hpp>
#include <tlx/math/sgn.hpp>

#include <cstdint>

template <typename T>
unsigned long long drive(T v) {
    return tlx::clz(v) + tlx::ctz(v) + tlx::ffs(v) + tlx::popcount(v) + tlx::integer_log2_floor(v) +
           tlx::integer_log2_ceil(v) + (tlx::is_power_of_two(v) ? 1 : 0) +
           static_cast<unsigned long long>(tlx::round_up_to_power_of_two(v)) +
           static_cast<unsigned long long>(tlx::round_down_to_power_of_two(v)) +
           static_cast<unsigned long long>(tlx::div_ceil(v, v)) + static_cast<unsigned long long>(tlx::round_up(v, v)) +
           static_cast<unsigned long long>(tlx::abs_diff(v, v)) + static_cast<unsigned long long>(tlx::sgn(v)) +
           tlx::clz_template(v) + tlx::ctz_template(v) + tlx::ffs_template(v);
}

unsigned long long witness_c20(int a, unsigned b, long c, unsigned long d, long long e, unsigned long long f) {
    return drive(a) + drive(b) + drive(c) + drive(d) + drive(e) + drive(f);
}

std::uint64_t witness_c20_bits(std::uint16_t a, std::uint32_t b, std::uint64_t c, int i) {
    return tlx::bswap16(a) + tlx::bswap32(b) + tlx::bswap64(c) + tlx::bswap16_generic(a) + tlx::bswap32_generic(b) +
           tlx::bswap64_generic(c) + tlx::rol32(b, i) + tlx::rol64(c, i) + tlx::ror32(b, i) + tlx::ror64(c, i) +
           tlx::rol32_generic(b, i) + tlx::rol64_generic(c, i) + tlx::ror32_generic(b, i) + tlx::ror64_generic(c, i) +
           tlx::popcount_generic8(std::uint8_t(a)) + tlx::popcount_generic16(a) + tlx::popcount_generic32(b) + tlx::popcount_generic64(c);
}

double witness_c20_agg(tlx::Aggregate<double>& x, const tlx::Aggregate<double>& y, tlx::Aggregate<int>& p, const tlx::Aggregate<int>& q) {
    x.add(1.0);
    tlx::Aggregate<double> z = x + y;
    x += y;
    p.add(1);
    tlx::Aggregate<int> r = p + q;
    p += q;
    return z.mean() + z.variance() + x.stdev() + z.count() + z.sum() + z.min() + z.max() + r.avg() + p.var() + r.span() + r.total();
}
