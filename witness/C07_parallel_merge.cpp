// C07 witness: the four public parallel multiway merge entry points.
#include <tlx/algorithm/parallel_multiway_merge.hpp>

#include <cstddef>
#include <functional>
#include <string>
#include <utility>
#include <vector>

#ifndef WITNESS_T
#define WITNESS_T int
#endif
using T = WITNESS_T;
using It = std::vector<T>::iterator;
using Seqs = std::vector<std::pair<It, It> >;

It witness_c07(Seqs& seqs, It target, std::ptrdiff_t size, tlx::MultiwayMergeAlgorithm a, tlx::MultiwayMergeSplittingAlgorithm s, size_t threads) {
    It t = tlx::parallel_multiway_merge(seqs.begin(), seqs.end(), target, size, std::less<T>(), a, s, threads);
    t = tlx::stable_parallel_multiway_merge(seqs.begin(), seqs.end(), t, size, std::less<T>(), a, s, threads);
    t = tlx::parallel_multiway_merge_sentinels(seqs.begin(), seqs.end(), t, size, std::less<T>(), a, s, threads);
    t = tlx::stable_parallel_multiway_merge_sentinels(seqs.begin(), seqs.end(), t, size, std::less<T>(), a, s, threads);
    return t;
}

// exact splitting rests on multisequence_partition; its twin multisequence_selection is instantiated with the same
// arguments so that the agreement rule of C08 can be applied to the partition used here
#include <tlx/algorithm/multisequence_selection.hpp>
T witness_c07_twin(Seqs& seqs, std::ptrdiff_t rank) {
    std::ptrdiff_t off;
    return tlx::multisequence_selection<T>(seqs.begin(), seqs.end(), rank, off, std::less<T>());
}
