// C18 witness: every StringView query with a std::string_view counterpart.
#include <tlx/container/string_view.hpp>

#include <cstddef>
#include <string>

std::size_t witness_c18(tlx::StringView a, tlx::StringView b, const char* cs, const std::string& str, char c, char* buf,
                        std::size_t pos, std::size_t n) {
    std::size_t r = 0;
    r += a.compare(b) + a.compare(pos, n, b) + a.compare(pos, n, b, pos, n) + a.compare(cs) + a.compare(pos, n, cs) + a.compare(pos, n, cs, n);
    r += (a == b) + (a != b) + (a < b) + (a > b) + (a <= b) + (a >= b);
    r += (a == str) + (str == a) + (a != str) + (str != a) + (a < str) + (str < a) + (a > str) + (str > a) + (a <= str) + (str <= a) + (a >= str) + (str >= a);
    r += (a == cs) + (cs == a) + (a != cs) + (cs != a) + (a < cs) + (cs < a) + (a > cs) + (cs > a) + (a <= cs) + (cs <= a) + (a >= cs) + (cs >= a);
    r += a.find(b, pos) + a.find(c, pos) + a.find(cs, pos, n) + a.find(cs, pos);
    r += a.rfind(b, pos) + a.rfind(c, pos) + a.rfind(cs, pos, n) + a.rfind(cs, pos);
    r += a.find_first_of(b, pos) + a.find_first_of(c, pos) + a.find_first_of(cs, pos, n) + a.find_first_of(cs, pos);
    r += a.find_last_of(b, pos) + a.find_last_of(c, pos) + a.find_last_of(cs, pos, n) + a.find_last_of(cs, pos);
    r += a.find_first_not_of(b, pos) + a.find_first_not_of(c, pos) + a.find_first_not_of(cs, pos, n) + a.find_first_not_of(cs, pos);
    r += a.find_last_not_of(b, pos) + a.find_last_not_of(c, pos) + a.find_last_not_of(cs, pos, n) + a.find_last_not_of(cs, pos);
    r += a.starts_with(c) + a.starts_with(b) + a.ends_with(c) + a.ends_with(b);
    r += a.substr(pos, n).size() + a.copy(buf, n, pos) + a.at(pos) + a[pos] + a.front() + a.back() + a.size() + a.length() + a.empty();
    a.remove_prefix(n);
    a.remove_suffix(n);
    r += a.to_string().size() + std::string(a).size() + (a.data() != nullptr) + (a.end() - a.begin());
    return r;
}
