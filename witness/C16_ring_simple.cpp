// C16 witness: RingBuffer<std::string> and SimpleVector (all three modes) through
// their public members only.
#include <tlx/container/ring_buffer.hpp>
#include <tlx/container/simple_vector.hpp>

#include <string>
#include <utility>
#include <vector>

#ifndef WITNESS_T
#define WITNESS_T std::string
#endif
using T = WITNESS_T;

struct WitnessArchive {
    template <typename... A>
    void operator()(A&&...) {}
};


std::size_t witness_c16_ring(const T& v, std::vector<T>* out) {
    tlx::RingBuffer<T> a(8), d;
    a.push_back(v);
    a.push_back(T(v));
    a.emplace_back(v);
    a.push_front(v);
    a.push_front(T(v));
    a.emplace_front(v);
    a.pop_front();
    a.pop_back();
    tlx::RingBuffer<T> b(a);
    tlx::RingBuffer<T> c(std::move(b));
    b = a;
    b = std::move(c);
    d.allocate(4);
    d.push_back(a.front());
    d.push_back(a.back());
    d.push_back(a[1]);
    const tlx::RingBuffer<T>& ca = a;
    d.push_back(ca.front());
    d.pop_front();
    d.push_back(ca.back());
    d.pop_front();
    d.push_back(ca[1]);
    WitnessArchive ar;      // the cereal-style serialisation members re-create the buffer as well
    ca.save(ar);
    d.load(ar);
    a.copy_to(out);
    a.move_to(out);
    std::size_t r = a.size() + a.max_size() + a.capacity() + (a.empty() ? 1 : 0);
    a.clear();
    d.deallocate();
    return r;
}

template <tlx::SimpleVectorMode M>
std::size_t drive_sv(const T& v) {
    tlx::SimpleVector<T, M> a(4), e;
    a.fill(v);
    tlx::SimpleVector<T, M> b(std::move(a));
    a = std::move(b);
    a.resize(8);
    a.swap(b);
    std::size_t r = b.size() + (b.end() - b.begin()) + b.front().size() + b.back().size() +
                    b[1].size() + b.at(2).size() + (b.data() != nullptr);
    b.destroy();
    return r + e.size();
}

std::size_t witness_c16_sv(const T& v) {
    return drive_sv<tlx::SimpleVectorMode::Normal>(v) +
           drive_sv<tlx::SimpleVectorMode::NoInitButDestroy>(v) +
           drive_sv<tlx::SimpleVectorMode::NoInitNoDestroy>(v);
}
