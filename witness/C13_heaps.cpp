// C13 witness: the three heaps through their public members.
#include <tlx/container/d_ary_addressable_int_heap.hpp>
#include <tlx/container/d_ary_heap.hpp>
#include <tlx/container/radix_heap.hpp>

#include <cstdint>
#include <functional>
#include <utility>
#include <vector>

#ifndef WITNESS_ARITY
#define WITNESS_ARITY 2
#endif

template <typename H>
unsigned drive_heap(H& h, std::vector<unsigned>& keys) {
    unsigned k = 7;
    h.push(k);
    h.push(3u);
    unsigned t = h.top();
    h.pop();
    t += h.extract_top();
    h.update_all();
    h.build_heap(keys.begin(), keys.end());
    h.build_heap(keys);
    h.build_heap(std::move(keys));
    h.clear();
    return t + unsigned(h.size()) + unsigned(h.capacity()) + (h.empty() ? 1 : 0) + (h.sanity_check() ? 1 : 0);
}

unsigned witness_c13(std::vector<unsigned>& keys) {
    tlx::DAryHeap<unsigned, WITNESS_ARITY> a;
    tlx::DAryHeap<unsigned, 4, std::greater<unsigned> > b;
    tlx::DAryAddressableIntHeap<unsigned, WITNESS_ARITY> c;
    tlx::DAryAddressableIntHeap<unsigned, 3, std::greater<unsigned> > d;
    unsigned r = drive_heap(a, keys) + drive_heap(b, keys) + drive_heap(c, keys) + drive_heap(d, keys);
    c.reserve(10);
    c.push(5u);
    c.update(5u);
    c.update(6u);
    c.remove(5u);
    return r + (c.contains(6u) ? 1 : 0);
}

std::uint64_t witness_c13_radix(std::vector<std::pair<std::uint64_t, int> >& out) {
    tlx::RadixHeapPair<std::uint64_t, int, 8> h;
    tlx::RadixHeapPair<std::int32_t, int, 16> s;
    h.push({5u, 1});
    h.emplace(6u, 6u, 2);
    h.emplace_keyfirst(7u, 3);
    h.push_to_bucket(h.get_bucket({9u, 4}), {9u, 4});
    std::uint64_t r = h.peak_top_key() + h.top().first + h.size() + (h.empty() ? 1 : 0) + h.get_bucket_key(11u);
    h.pop();
    h.swap_top_bucket(out);
    h.clear();
    s.push({-5, 1});
    s.emplace(3, 3, 2);
    r += std::uint64_t(s.top().first + s.peak_top_key());
    s.pop();
    s.clear();
    return r;
}

// narrow key types (the property covers 8..64-bit keys): integer promotion inside the bucket computation matters here
template <typename K>
static std::uint64_t small_key_heap(K a, K b) {
    tlx::RadixHeapPair<K, int, 4> h;
    h.push({a, 1});
    h.emplace(b, b, 2);
    std::uint64_t r = std::uint64_t(h.top().first) + h.size();
    h.pop();
    h.clear();
    return r;
}
std::uint64_t witness_c13_radix_small() {
    return small_key_heap<std::uint8_t>(1, 2) + small_key_heap<std::int8_t>(-1, 2) + small_key_heap<std::uint16_t>(1, 2) + small_key_heap<std::int16_t>(-1, 2);
}
