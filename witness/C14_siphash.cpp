// C14 witness: both SipHash implementations and the public front ends.
#include <tlx/siphash.hpp>

#include <cstddef>
#include <cstdint>

std::uint64_t witness_c14(const std::uint8_t key[16], const std::uint8_t* m, std::size_t len, tlx::string_view sv) {
    std::uint64_t r = tlx::siphash_plain(key, m, len);
#if defined(__SSE2__)
    r ^= tlx::siphash_sse2(key, m, len);
#endif
    return r ^ tlx::siphash(key, m, len) ^ tlx::siphash(m, len) ^ tlx::siphash(sv) ^ tlx::siphash(len);
}
