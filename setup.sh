#!/bin/sh
# builds the extractor from files on disk only (offline)
set -e
cd "$(dirname "$0")"
mkdir -p build out evidence
if [ ! -x build/tlxir ] || [ tools/tlxir.cc -nt build/tlxir ]; then
  clang++ $(llvm-config-14 --cxxflags) -O1 -fno-rtti tools/tlxir.cc -o build/tlxir \
    /usr/lib/llvm-14/lib/libclang-cpp.so.14 /usr/lib/llvm-14/lib/libLLVM-14.so
fi
echo "setup ok"
